#!/bin/sh
# ./run.sh <PROP> quick|thorough      run the check of one property
# ./run.sh replay <file>              re-execute a replay file
# Rebuilds the harness from /repo's current working tree first; a build
# failure is exit 2 (harness trouble), never a VIOLATION.
cd "$(dirname "$0")"
. ./env.sh
mkdir -p bin evidence replays
MODFLAG=""
BIN=bin
if [ -n "$VERIF_REPO" ]; then
  BIN=bin/alt.$$
  mkdir -p $BIN
  trap 'rm -rf /verif/bin/alt.'$$ EXIT
  # development aid only (sensitivity experiments on a scratch copy of the
  # repository): registered checks never set VERIF_REPO and build against /repo
  sed "s#=> /repo#=> $VERIF_REPO#" go.mod > $BIN/alt.mod
  cp go.sum $BIN/alt.sum
  MODFLAG="-modfile=$BIN/alt.mod"
fi
if ! go build $MODFLAG -tags verif -o $BIN/verif ./cmd/verif 2>$BIN/build.log; then
  echo "BUILD FAILED (exit 2, not a violation):" >&2
  cat $BIN/build.log >&2
  exit 2
fi
if [ "$1" = "C07" ] || [ "$1" = "replay" -a -n "$VERIF_RACE" ]; then
  if ! go build $MODFLAG -race -tags verif -o $BIN/verif-race ./cmd/verif 2>$BIN/build-race.log; then
    echo "RACE BUILD FAILED (exit 2, not a violation):" >&2
    cat $BIN/build-race.log >&2
    exit 2
  fi
fi
export VERIF_ROOT="$(pwd)"
if [ "$1" = "replay" ] && grep -q '"rule": "C07/data-race' "$2" 2>/dev/null; then
  go build $MODFLAG -race -tags verif -o $BIN/verif-race ./cmd/verif 2>$BIN/build-race.log || exit 2
  export GORACE="log_path=$(mktemp -d)/racelog halt_on_error=0"
  ./$BIN/verif-race replay "$2"; exit $?
fi
if [ "$1" = "replay" ]; then
  ./$BIN/verif replay "$2"; exit $?
fi
./$BIN/verif check "$1" --tier "${2:-quick}"; exit $?
