#!/bin/sh
# ./run.sh <PROP> quick|thorough      run the check of one property
# ./run.sh replay <file>              re-execute a replay file
# Rebuilds the harness from /repo's current working tree first; a build
# failure is exit 2 (harness trouble), never a VIOLATION.
cd "$(dirname "$0")"
. ./env.sh
mkdir -p bin evidence replays
if ! go build -tags verif -o bin/verif ./cmd/verif 2>bin/build.log; then
  echo "BUILD FAILED (exit 2, not a violation):" >&2
  cat bin/build.log >&2
  exit 2
fi
if [ "$1" = "C07" ] || [ "$1" = "replay" -a -n "$VERIF_RACE" ]; then
  if ! go build -race -tags verif -o bin/verif-race ./cmd/verif 2>bin/build-race.log; then
    echo "RACE BUILD FAILED (exit 2, not a violation):" >&2
    cat bin/build-race.log >&2
    exit 2
  fi
fi
export VERIF_ROOT="$(pwd)"
if [ "$1" = "replay" ] && grep -q '"rule": "C07/data-race' "$2" 2>/dev/null; then
  go build -race -tags verif -o bin/verif-race ./cmd/verif 2>bin/build-race.log || exit 2
  export GORACE="log_path=$(mktemp -d)/racelog halt_on_error=0"
  exec ./bin/verif-race replay "$2"
fi
if [ "$1" = "replay" ]; then
  exec ./bin/verif replay "$2"
fi
exec ./bin/verif check "$1" --tier "${2:-quick}"
