#!/bin/sh
# Sensitivity wave: re-introduce each repaired defect (reverse-apply its fix commit
# onto a scratch copy of /repo) and run the checks that should catch it.
# usage: tools/revert_wave.sh <outfile> [commit:PROP,PROP ...]
OUT=${1:-/tmp/revert_wave.txt}; shift
SCR=$(mktemp -d /tmp/revwave.XXXXXX)
cd /verif
LIST="$@"
[ -z "$LIST" ] && LIST="e816438:C11 388045f:C20 f7e5426:C02,C01 f5ea301:C06,C09 0281fc3:C06 6dfb42e:C12 1ee26d8:C09,C04 03a8adb:C02,C01 3b3886b:C14,C20 07a133b:C01,C08 d98bee9:C14,C06 0c4897e:C17,C02 64e9716:C02,C01 8e32df1:C03 2b9599e:C04,C05 faab1cd:C20 ea4e954:C15 8af90bb:C15 c9822ac:C15,C17 LASTC07:C07"
: > $OUT
for item in $LIST; do
  h=${item%%:*}; props=$(echo ${item#*:} | tr ',' ' ')
  [ "$h" = "LASTC07" ] && h=$(git -C /repo log --format=%h --grep='concurrent writers of a collection must conflict' -1)
  rm -rf $SCR/repo; git -C /repo worktree add -q --detach $SCR/repo HEAD 2>/dev/null || { echo "worktree failed"; exit 2; }
  if ! git -C /repo diff $h~1 $h | git -C $SCR/repo apply -R 2>/dev/null; then
    echo "$h: reverse patch does not apply cleanly (later fixes touch the same lines) - skipped" >> $OUT
    git -C /repo worktree remove --force $SCR/repo; continue
  fi
  for p in $props; do
    res=$(VERIF_REPO=$SCR/repo ./run.sh $p quick 2>&1)
    code=$?
    rules=$(echo "$res" | grep -o "rule=[^ ]*" | sort | uniq -c | tr '\n' ' ')
    echo "$h $p exit=$code $rules" >> $OUT
  done
  git -C /repo worktree remove --force $SCR/repo
done
rm -rf $SCR
cat $OUT
