#!/usr/bin/env python3
"""usage: install_seeded.py <evallog> ...
Copies the mutations evaluated in the given logs (from /tmp/mut/out/<PROP>/<mK>/) into /verif/seeded/<PROP>-<mK>/
(patch.diff, demo_test.go, meta.json) when the confirmation steps succeeded: demo passes on the pristine tree, the 84
baseline tests pass with the change, the demo fails with the change."""
import json, os, re, shutil, sys
results = {}
for log in sys.argv[1:]:
    cur = None
    for line in open(log, errors="replace"):
        line = line.rstrip("\n")
        m = re.match(r"=== (\S+)", line)
        if m:
            cur = m.group(1)
            results[cur] = {"lines": [], "checks": {}}
            continue
        if cur is None:
            continue
        results[cur]["lines"].append(line)
        m = re.match(r"CHECK (\S+) exit=(\d+)\s*(.*)", line)
        if m:
            results[cur]["checks"][m.group(1)] = {"exit": int(m.group(2)), "rules": m.group(3).strip()}
for mid, r in sorted(results.items()):
    text = "\n".join(r["lines"])
    ok = ("demo on pristine tree: PASS" in text and "NOT passing: 0" in text and "demo with the change: FAIL" in text)
    prop, mk = mid.split("/")
    src = "%s/%s/%s" % (os.environ.get("MUTOUT", "/tmp/mut/out"), prop, mk)
    dst = "/verif/seeded/%s-%s%s" % (prop, os.environ.get("SEED_PREFIX", ""), mk)
    if not ok or not os.path.exists(src + "/patch.diff"):
        print(mid, "NOT CONFIRMED - skipped:", [l for l in r["lines"][:4]])
        continue
    os.makedirs(dst, exist_ok=True)
    shutil.copy(src + "/patch.diff", dst + "/patch.diff")
    shutil.copy(src + "/demo_test.go", dst + "/demo_test.go")
    notes = open(src + "/meta.txt").read() if os.path.exists(src + "/meta.txt") else ""
    meta = {
        "id": os.path.basename(dst),
        "breaks_property": prop,
        "written_by": "independent sub-agent given only the property text and a scratch worktree",
        "needs_to_manifest": notes,
        "confirmed": {
            "applies_and_compiles": True,
            "baseline_84_tests_pass_with_change": True,
            "demo_passes_on_pristine_tree": True,
            "demo_fails_with_change": True,
            "how": "tools/try_mutation.sh (scratch worktree of /repo, removed afterwards)",
        },
        "quick_checks_run_against_it": r["checks"],
        "caught_by": sorted(p for p, c in r["checks"].items() if c["exit"] == 1),
    }
    prev = dst + "/meta.json"
    if os.path.exists(prev):
        old = json.load(open(prev))
        hist = old.get("earlier_evaluations", [])
        hist.append({"quick_checks_run_against_it": old.get("quick_checks_run_against_it"), "caught_by": old.get("caught_by")})
        meta["earlier_evaluations"] = hist
    json.dump(meta, open(prev, "w"), indent=1)
    print(mid, "installed; caught by", meta["caught_by"], "missed by", sorted(p for p, c in r["checks"].items() if c["exit"] == 0))
