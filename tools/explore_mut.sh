#!/bin/sh
# usage: tools/explore_mut.sh <dir with patch.diff> <explore args...>
# development aid: run `verif explore` against a scratch copy of /repo with a patch applied
D=$(cd "$1" && pwd); shift
SCR=$(mktemp -d /tmp/expmut.XXXXXX)
cleanup() { git -C /repo worktree remove --force $SCR/repo 2>/dev/null; rm -rf $SCR /verif/bin/alt.e$$; }
trap cleanup EXIT
. /verif/env.sh
git -C /repo worktree add -q --detach $SCR/repo HEAD || exit 2
(cd $SCR/repo && git apply "$D/patch.diff") || exit 2
cd /verif
mkdir -p bin/alt.e$$
sed "s#=> /repo#=> $SCR/repo#" go.mod > bin/alt.e$$/alt.mod; cp go.sum bin/alt.e$$/alt.sum
go build -modfile=bin/alt.e$$/alt.mod -tags verif -o bin/alt.e$$/verif ./cmd/verif || exit 2
VERIF_ROOT=/verif ./bin/alt.e$$/verif explore "$@"
