#!/bin/sh
# usage: tools/try_benign.sh <dir containing patch.diff>
# Applies a behaviour-preserving refactoring to a scratch worktree and runs every quick check against it:
# any exit != 0 is a candidate false alarm (or the refactoring is not as harmless as claimed).
D=$(cd "$1" && pwd)
SCR=$(mktemp -d /tmp/trybenign.XXXXXX)
cleanup() { git -C /repo worktree remove --force $SCR/repo 2>/dev/null; rm -rf $SCR; }
trap cleanup EXIT
. /verif/env.sh
git -C /repo worktree add -q --detach $SCR/repo HEAD || exit 2
cd $SCR/repo
if ! git apply "$D/patch.diff" 2>/dev/null; then if ! git apply --3way "$D/patch.diff" 2>/dev/null; then echo "PATCH DOES NOT APPLY"; exit 2; fi; git reset -q; fi
if ! go build ./... 2>$SCR/build.log; then echo "DOES NOT COMPILE"; cat $SCR/build.log; exit 2; fi
python3 /tmp/mut/baseline.py $SCR/repo | head -3
cd /verif
for p in ${CHECKS:-C01 C02 C03 C04 C05 C06 C07 C08 C09 C11 C12 C13 C14 C15 C17 C19 C20}; do
  res=$(VERIF_REPO=$SCR/repo ./run.sh $p quick 2>&1); code=$?
  rules=$(echo "$res" | grep -o "rule=[^ ]*" | sort | uniq -c | tr '\n' ' ')
  echo "CHECK $p exit=$code $rules"
  if [ $code -ne 0 ]; then echo "$res" | grep -A2 "^VIOLATION\|trouble\|WATCHDOG\|BUILD" | head -8 | cut -c1-700; fi
done
