#!/usr/bin/env python3
"""Runs /repo's test suite (build tags as given) and compares the set of passing tests with BASELINE.json."""
import json, subprocess, sys, os
tags = sys.argv[1] if len(sys.argv) > 1 else ""
env = dict(os.environ, GOFLAGS="-mod=mod", GOPROXY="off", GOSUMDB="off")
cmd = ["go", "test", "-json", "-vet=off", "-count=1", "-timeout", "25m"]
if tags:
    cmd += ["-tags", tags]
cmd += ["./..."]
p = subprocess.run(cmd, cwd="/repo", env=env, capture_output=True, text=True)
passed = set()
for line in p.stdout.splitlines():
    try:
        ev = json.loads(line)
    except Exception:
        continue
    if ev.get("Action") == "pass" and ev.get("Test"):
        passed.add(ev["Package"] + "::" + ev["Test"])
base = set(json.load(open("/root/.vp/BASELINE.json"))["stable_pass"])
missing = sorted(base - passed)
print("baseline tests: %d, passing now: %d, baseline tests not passing: %d" % (len(base), len(passed & base), len(missing)))
for m in missing:
    print("  MISSING", m)
sys.exit(1 if missing else 0)
