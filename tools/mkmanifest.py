#!/usr/bin/env python3
"""Regenerates /verif/MANIFEST.json from the table below."""
import json
HIST = "E-HIST: seeded single-client histories over the store decorator, reference model as oracle, store faults / restarts / simulated crashes / abandoned operations injected per run"
checks = {
 "C01": ("exploration", HIST, "deterministic simulation: seeded operation histories with injected store faults, restarts and crashes, compared with a reference model after every operation", "sim §6 C01"),
 "C02": ("exploration", HIST + "; twin collections differing only in index sets", "deterministic simulation: mirrored histories on twin collections that differ only in their indexes, pairwise comparison plus reference model", "sim §6 C02"),
 "C03": ("exploration", HIST + "; bulk mode with cursor-visibility modes of the simulated store", "deterministic simulation: bulk update/delete histories over simulated-store cursor modes and real engines, affected set and callback accounting against the model", "sim §6 C03"),
 "C06": ("exploration", HIST + "; consistency audit after every step", "deterministic simulation: histories with failing operations, drops and re-creations; layout-agnostic audit (canonical rebuild key-set equality) after every step", "sim §6 C06"),
 "C08": ("exploration", HIST + "; sort/window mode", "deterministic simulation: seeded histories, order-validity and window key-sequence oracle from the reference model", "sim §6 C08"),
 "C09": ("exploration", HIST + "; derived-reads mode", "deterministic simulation: derived reads compared with FindAll on the same quiescent state, store-write accounting at the seam", "sim §6 C09"),
 "C11": ("exploration", HIST + "; round-trip mode with reopen and crash-restart", "deterministic simulation: typed round-trip equality through writes, clean reopen and simulated crash-restart", "sim §6 C11"),
 "C12": ("exploration", HIST + "; id mode with the UUID generator behind a seeded seam", "deterministic simulation: id histories (generated ids from a seeded generator seam, duplicates, malformed ids, rewrite attempts) against the model", "sim §6 C12"),
 "C13": ("exploration", HIST + "; catalog mode with adversarial names", "deterministic simulation: catalog histories with adversarial names, whole-database comparison after every write", "sim §6 C13"),
 "C14": ("exploration", HIST + "; index-catalog mode with prefix/dotted field names", "deterministic simulation: index create/drop histories over prefix-related and dotted fields, queries through sibling indexes against the model", "sim §6 C14"),
 "C19": ("exploration", HIST + "; export/import mode with generated bad files", "deterministic simulation: export/import histories with generated file faults and store faults, JSON-typed model", "sim §6 C19"),
 "C20": ("exploration", HIST + "; nasty-shapes mode, recover() around every public call, API after Close", "deterministic simulation: every public call of every run under recover(), nasty criteria shapes on indexed collections, API after Close, a worker process killed by an operation (Go fatal error, refused allocation under a capped address space) re-executed in a child process and reported as C20/process-death, self-deadlock detection in the simulated store", "sim §6 C20"),
}
m = {
 "version": 1,
 "setup_cmd": "./setup.sh",
 "hooks": {
  "guard": "verif",
  "enable": "checks build with `go build -tags verif`; the single hook is verif_export.go (exports internal.ErrStopIteration as clover.VerifErrStopIteration); every other seam is the existing clover.OpenWithStore(store.Store)",
  "baseline_off_cmd": "python3 /verif/tools/baseline.py",
  "source_commits": ["9679162"],
  "add_only": True
 },
 "engines": [
  {"name": "E-HIST", "path": "sim/hist.go, sim/exec.go, sim/exec_ops.go, sim/gen.go", "serves_properties": sorted(checks.keys()), "kind_free_text": "seeded single-client history simulation over the store decorator (sim/wrap) and a backend (simulated disk sim/mem, or real bbolt / badger), reference model sim/model as oracle, fault / crash / restart injection, run-file replay and minimisation"}
 ],
 "checks": [],
 "notes": "Every check rebuilds bin/verif from /repo's working tree (run.sh). Exit 0 held, 1 VIOLATION (with replay file), 2 harness trouble. Known findings: known_findings.json.",
 "not_applicable": [
  {"property_id": "C10", "reason": "pure function of two or three values (comparison / key encoding); no schedule, clock, fault, crash point or history for a simulator to control; its store-facing clause is exercised as a side condition of C02/C17"},
  {"property_id": "C16", "reason": "pure in-memory function of (criteria tree, document); no I/O, schedule or fault; a breach surfaces as a C01 mismatch because the model's evaluator obeys the laws"},
  {"property_id": "C18", "reason": "pure in-memory value normalisation; never touches the store, nothing to schedule or fail"}
 ]
}
import sys
extra = {}
try:
    extra = json.load(open('/verif/tools/manifest_extra.json'))
except Exception:
    pass
for pid, v in extra.get("checks", {}).items():
    checks[pid] = tuple(v)
m["engines"] += extra.get("engines", [])
for pid in sorted(checks):
    level, engine, technique, ref = checks[pid][:4]
    m["checks"].append({
      "property_id": pid,
      "quick_cmd": "./run.sh %s quick" % pid,
      "thorough_cmd": "./run.sh %s thorough" % pid,
      "evidence_file": "/verif/evidence/%s.json" % pid,
      "replay_cmd_template": "./run.sh replay {path}",
      "engine": engine,
      "level_claimed": {"category": level, "text": "seeded search over histories, fault positions and (where applicable) schedules; a clean batch is evidence that the property held on everything explored, not a proof" if level=="exploration" else "every position of every store call of each sampled (state, operation) pair is enumerated exhaustively; the pairs themselves are sampled by seeded search", "design_ref": "DESIGN.md " + ref},
      "level_note": "trusted base: the reference model and oracle code under /verif/sim, the Go toolchain, and for mem-* backends the simulated store's fidelity to the shipped engines' transaction and cursor semantics",
      "technique": technique,
    })
json.dump(m, open('/verif/MANIFEST.json','w'), indent=1)
print("wrote MANIFEST with", len(m["checks"]), "checks")
