#!/bin/sh
# usage: tools/try_mutation.sh <dir containing patch.diff [demo_test.go]> <PROP> [PROP...]
# Applies the patch to a scratch worktree of /repo, confirms it compiles, passes the
# 84 baseline tests, that the demo fails with it and passes without it, then runs the
# quick checks of the given properties against the scratch copy (VERIF_REPO).
D=$(cd "$1" && pwd); shift
SCR=$(mktemp -d /tmp/trymut.XXXXXX)
cleanup() { git -C /repo worktree remove --force $SCR/repo 2>/dev/null; rm -rf $SCR; }
trap cleanup EXIT
. /verif/env.sh
git -C /repo worktree add -q --detach $SCR/repo HEAD || exit 2
cd $SCR/repo
if [ -f "$D/demo_test.go" ]; then
  cp "$D/demo_test.go" zz_demo_test.go
  if go test -count=1 -vet=off -run "$(grep -o 'func Test[A-Za-z0-9_]*' zz_demo_test.go | sed 's/func //' | paste -sd'|')" . >$SCR/demo_clean.log 2>&1; then echo "demo on pristine tree: PASS"; else echo "demo on pristine tree: FAIL (unexpected)"; tail -5 $SCR/demo_clean.log; fi
  rm -f zz_demo_test.go
fi
if ! git apply "$D/patch.diff" 2>/dev/null; then if ! git apply --3way "$D/patch.diff" 2>/dev/null; then echo "PATCH DOES NOT APPLY"; exit 2; fi; git reset -q; fi
if ! go build ./... 2>$SCR/build.log; then echo "DOES NOT COMPILE"; cat $SCR/build.log; exit 2; fi
python3 /tmp/mut/baseline.py $SCR/repo | head -3
if [ -f "$D/demo_test.go" ]; then
  cp "$D/demo_test.go" zz_demo_test.go
  if go test -count=1 -vet=off -run "$(grep -o 'func Test[A-Za-z0-9_]*' zz_demo_test.go | sed 's/func //' | paste -sd'|')" . >$SCR/demo_mut.log 2>&1; then echo "demo with the change: PASS (unexpected)"; else echo "demo with the change: FAIL (as intended)"; fi
  rm -f zz_demo_test.go
fi
cd /verif
for p in "$@"; do
  res=$(VERIF_REPO=$SCR/repo ./run.sh $p quick 2>&1); code=$?
  rules=$(echo "$res" | grep -o "rule=[^ ]*" | sort | uniq -c | tr '\n' ' ')
  echo "CHECK $p exit=$code $rules"
  echo "$res" | grep -A1 "^VIOLATION" | head -4 | cut -c1-400
done
