#!/usr/bin/env python3
import json, sys, glob
sys.path.insert(0,'/opt/veriftools/pyvenv/lib/python3.11/site-packages')
import jsonschema
ms = json.load(open('/root/.vp/MANIFEST.schema.json'))
es = json.load(open('/root/.vp/EVIDENCE.schema.json'))
m = json.load(open('/verif/MANIFEST.json'))
jsonschema.validate(m, ms)
print("MANIFEST ok;", len(m['checks']), "checks")
for f in sorted(glob.glob('/verif/evidence/*.json')):
    e = json.load(open(f))
    jsonschema.validate(e, es)
    c = e['coverage']
    print(f.split('/')[-1], e['tier'], 'eval', c['evaluations'], 'distinct', c['distinct_nontrivial'], 'wall', round(e['wall_s'],1), 'viol', e.get('violations'))
