#!/bin/sh
# Builds the harness offline from files on disk only.
set -e
cd "$(dirname "$0")"
. ./env.sh
mkdir -p bin evidence replays
go build -tags verif -o bin/verif ./cmd/verif
