#!/bin/sh
# Builds the harness offline from files on disk only.
set -e
cd "$(dirname "$0")"
. ./env.sh
mkdir -p bin evidence replays
cp /repo/go.sum ./go.sum 2>/dev/null || true
go build -o bin/verif ./cmd/verif
