// Package val is the harness's own value domain: the canonical Go types clover
// documents hold (nil, bool, int64, uint64, float64, string, time.Time,
// []interface{}, map[string]interface{}), an exact total preorder on them, typed
// deep equality, and a lossless JSON form used in run files.
//
// Nothing here imports clover: this is the oracle side.
package val

import (
	"encoding/hex"
	"encoding/json"
	"fmt"
	"math"
	"math/big"
	"sort"
	"strconv"
	"strings"
	"time"
	"unicode/utf8"
)

// Rank implements the documented type ranking
// nil < number < string < object < array < bool < time.
func Rank(v interface{}) int {
	switch v.(type) {
	case nil:
		return 0
	case int64, uint64, float64:
		return 1
	case string:
		return 2
	case map[string]interface{}:
		return 3
	case []interface{}:
		return 4
	case bool:
		return 5
	case time.Time:
		return 6
	}
	return 99 // outside the domain (reported by the harness as a type violation)
}

// Foreign returns the Go type name of the first value outside the domain, if any.
func Foreign(v interface{}) (string, bool) {
	switch x := v.(type) {
	case nil, bool, int64, uint64, float64, string, time.Time:
		return "", false
	case []interface{}:
		for _, e := range x {
			if t, ok := Foreign(e); ok {
				return t, true
			}
		}
		return "", false
	case map[string]interface{}:
		for _, k := range SortedKeys(x) {
			if t, ok := Foreign(x[k]); ok {
				return t, true
			}
		}
		return "", false
	}
	return fmt.Sprintf("%T", v), true
}

func IsNumber(v interface{}) bool {
	switch v.(type) {
	case int64, uint64, float64:
		return true
	}
	return false
}

func bigOf(v interface{}) *big.Float {
	switch x := v.(type) {
	case int64:
		return new(big.Float).SetPrec(64).SetInt64(x)
	case uint64:
		return new(big.Float).SetPrec(64).SetUint64(x)
	case float64:
		return new(big.Float).SetPrec(64).SetFloat64(x)
	}
	panic("not a number")
}

// CompareNumbers compares by exact numeric value across int64/uint64/float64.
func CompareNumbers(a, b interface{}) int {
	// fast paths
	if x, ok := a.(int64); ok {
		if y, ok := b.(int64); ok {
			switch {
			case x < y:
				return -1
			case x > y:
				return 1
			}
			return 0
		}
	}
	return bigOf(a).Cmp(bigOf(b))
}

func sgn(i int) int {
	switch {
	case i < 0:
		return -1
	case i > 0:
		return 1
	}
	return 0
}

// SortedKeys returns the keys of m in bytewise order.
func SortedKeys(m map[string]interface{}) []string {
	ks := make([]string, 0, len(m))
	for k := range m {
		ks = append(ks, k)
	}
	sort.Strings(ks)
	return ks
}

// Compare is the exact total preorder: -1, 0, +1.
func Compare(a, b interface{}) int {
	ra, rb := Rank(a), Rank(b)
	if ra != rb {
		return sgn(ra - rb)
	}
	if ra == 99 {
		return sgn(strings.Compare(fmt.Sprintf("%T %v", a, a), fmt.Sprintf("%T %v", b, b)))
	}
	switch x := a.(type) {
	case nil:
		return 0
	case int64, uint64, float64:
		return CompareNumbers(a, b)
	case string:
		return sgn(strings.Compare(x, b.(string)))
	case bool:
		y := b.(bool)
		switch {
		case x == y:
			return 0
		case !x:
			return -1
		}
		return 1
	case time.Time:
		y := b.(time.Time)
		switch {
		case x.Before(y):
			return -1
		case x.After(y):
			return 1
		}
		return 0
	case []interface{}:
		y := b.([]interface{})
		for i := 0; i < len(x) && i < len(y); i++ {
			if c := Compare(x[i], y[i]); c != 0 {
				return c
			}
		}
		return sgn(len(x) - len(y))
	case map[string]interface{}:
		y := b.(map[string]interface{})
		kx, ky := SortedKeys(x), SortedKeys(y)
		for i := 0; i < len(kx) && i < len(ky); i++ {
			if c := strings.Compare(kx[i], ky[i]); c != 0 {
				return sgn(c)
			}
			if c := Compare(x[kx[i]], y[ky[i]]); c != 0 {
				return c
			}
		}
		return sgn(len(kx) - len(ky))
	}
	panic("unreachable")
}

// Equal is typed deep equality: same Go type and same value. Floats by bit
// pattern, times by instant and zone offset.
func Equal(a, b interface{}) bool {
	switch x := a.(type) {
	case nil:
		return b == nil
	case bool:
		y, ok := b.(bool)
		return ok && x == y
	case int64:
		y, ok := b.(int64)
		return ok && x == y
	case uint64:
		y, ok := b.(uint64)
		return ok && x == y
	case float64:
		y, ok := b.(float64)
		return ok && math.Float64bits(x) == math.Float64bits(y)
	case string:
		y, ok := b.(string)
		return ok && x == y
	case time.Time:
		y, ok := b.(time.Time)
		if !ok {
			return false
		}
		_, ox := x.Zone()
		_, oy := y.Zone()
		return x.Equal(y) && ox == oy
	case []interface{}:
		y, ok := b.([]interface{})
		if !ok || len(x) != len(y) {
			return false
		}
		for i := range x {
			if !Equal(x[i], y[i]) {
				return false
			}
		}
		return true
	case map[string]interface{}:
		y, ok := b.(map[string]interface{})
		if !ok || len(x) != len(y) {
			return false
		}
		for k, v := range x {
			w, ok := y[k]
			if !ok || !Equal(v, w) {
				return false
			}
		}
		return true
	}
	return false
}

// InDomain reports whether v is built only from canonical types.
func InDomain(v interface{}) bool {
	switch x := v.(type) {
	case nil, bool, int64, uint64, float64, string, time.Time:
		return true
	case []interface{}:
		for _, e := range x {
			if !InDomain(e) {
				return false
			}
		}
		return true
	case map[string]interface{}:
		for _, e := range x {
			if !InDomain(e) {
				return false
			}
		}
		return true
	}
	return false
}

// Clone deep-copies a value.
func Clone(v interface{}) interface{} {
	switch x := v.(type) {
	case []interface{}:
		c := make([]interface{}, len(x))
		for i := range x {
			c[i] = Clone(x[i])
		}
		return c
	case map[string]interface{}:
		c := make(map[string]interface{}, len(x))
		for k, e := range x {
			c[k] = Clone(e)
		}
		return c
	}
	return v
}

func CloneMap(m map[string]interface{}) map[string]interface{} {
	if m == nil {
		return nil
	}
	return Clone(m).(map[string]interface{})
}

// String renders a value deterministically (sorted keys), with types visible.
func String(v interface{}) string {
	var sb strings.Builder
	write(&sb, v)
	return sb.String()
}

func write(sb *strings.Builder, v interface{}) {
	switch x := v.(type) {
	case nil:
		sb.WriteString("nil")
	case bool:
		sb.WriteString(strconv.FormatBool(x))
	case int64:
		sb.WriteString("i" + strconv.FormatInt(x, 10))
	case uint64:
		sb.WriteString("u" + strconv.FormatUint(x, 10))
	case float64:
		sb.WriteString("f" + strconv.FormatFloat(x, 'g', -1, 64))
	case string:
		sb.WriteString(strconv.Quote(x))
	case time.Time:
		_, off := x.Zone()
		sb.WriteString("T" + x.UTC().Format(time.RFC3339Nano) + "@" + strconv.Itoa(off))
	case []interface{}:
		sb.WriteByte('[')
		for i, e := range x {
			if i > 0 {
				sb.WriteByte(',')
			}
			write(sb, e)
		}
		sb.WriteByte(']')
	case map[string]interface{}:
		sb.WriteByte('{')
		for i, k := range SortedKeys(x) {
			if i > 0 {
				sb.WriteByte(',')
			}
			sb.WriteString(strconv.Quote(k))
			sb.WriteByte(':')
			write(sb, x[k])
		}
		sb.WriteByte('}')
	default:
		fmt.Fprintf(sb, "<%T:%v>", v, v)
	}
}

// ---- lossless JSON form -----------------------------------------------------

// V wraps a value for JSON (un)marshalling in run files.
type V struct{ X interface{} }

func Wrap(x interface{}) V { return V{x} }

type timeJSON struct {
	Sec  int64  `json:"sec"`
	Nsec int64  `json:"nsec"`
	Off  int    `json:"off"`
	Name string `json:"name,omitempty"`
}

func toJSON(v interface{}) interface{} {
	switch x := v.(type) {
	case nil:
		return nil
	case bool:
		return x
	case int64:
		return map[string]interface{}{"i": strconv.FormatInt(x, 10)}
	case uint64:
		return map[string]interface{}{"u": strconv.FormatUint(x, 10)}
	case float64:
		return map[string]interface{}{"f": strconv.FormatFloat(x, 'x', -1, 64)}
	case string:
		if utf8.ValidString(x) {
			return map[string]interface{}{"s": x}
		}
		return map[string]interface{}{"x": hex.EncodeToString([]byte(x))}
	case time.Time:
		name, off := x.Zone()
		return map[string]interface{}{"t": timeJSON{x.Unix(), int64(x.Nanosecond()), off, name}}
	case []interface{}:
		a := make([]interface{}, len(x))
		for i := range x {
			a[i] = toJSON(x[i])
		}
		return map[string]interface{}{"a": a}
	case map[string]interface{}:
		m := make(map[string]interface{}, len(x))
		for k, e := range x {
			m[k] = toJSON(e)
		}
		return map[string]interface{}{"m": m}
	}
	panic(fmt.Sprintf("val.toJSON: %T outside the domain", v))
}

func (v V) MarshalJSON() ([]byte, error) { return json.Marshal(toJSON(v.X)) }

func (v *V) UnmarshalJSON(b []byte) error {
	var raw interface{}
	dec := json.NewDecoder(strings.NewReader(string(b)))
	dec.UseNumber()
	if err := dec.Decode(&raw); err != nil {
		return err
	}
	x, err := fromJSON(raw)
	v.X = x
	return err
}

// MkTime builds a time with a fixed zone (UTC when off==0 and name is "UTC").
func MkTime(sec, nsec int64, off int, name string) time.Time {
	var loc *time.Location
	if off == 0 && (name == "UTC" || name == "") {
		loc = time.UTC
	} else {
		loc = time.FixedZone(name, off)
	}
	return time.Unix(sec, nsec).In(loc)
}

func fromJSON(raw interface{}) (interface{}, error) {
	switch x := raw.(type) {
	case nil:
		return nil, nil
	case bool:
		return x, nil
	case map[string]interface{}:
		if len(x) != 1 {
			return nil, fmt.Errorf("bad value object")
		}
		for tag, payload := range x {
			switch tag {
			case "i":
				return strconv.ParseInt(payload.(string), 10, 64)
			case "u":
				return strconv.ParseUint(payload.(string), 10, 64)
			case "f":
				return strconv.ParseFloat(payload.(string), 64)
			case "s":
				return payload.(string), nil
			case "x":
				b, err := hex.DecodeString(payload.(string))
				return string(b), err
			case "t":
				m := payload.(map[string]interface{})
				sec, _ := m["sec"].(json.Number).Int64()
				nsec, _ := m["nsec"].(json.Number).Int64()
				off, _ := m["off"].(json.Number).Int64()
				name, _ := m["name"].(string)
				return MkTime(sec, nsec, int(off), name), nil
			case "a":
				arr := payload.([]interface{})
				out := make([]interface{}, len(arr))
				for i := range arr {
					e, err := fromJSON(arr[i])
					if err != nil {
						return nil, err
					}
					out[i] = e
				}
				return out, nil
			case "m":
				mm := payload.(map[string]interface{})
				out := make(map[string]interface{}, len(mm))
				for k, e := range mm {
					w, err := fromJSON(e)
					if err != nil {
						return nil, err
					}
					out[k] = w
				}
				return out, nil
			}
			return nil, fmt.Errorf("bad value tag %q", tag)
		}
	}
	return nil, fmt.Errorf("bad value %T", raw)
}

// NormalizeInstant maps a time to UTC (same instant), other values unchanged.
func NormalizeInstant(v interface{}) interface{} {
	if t, ok := v.(time.Time); ok {
		return t.UTC()
	}
	return v
}

// NumKey renders a number by exact value, independent of its Go type.
func NumKey(v interface{}) string {
	f := bigOf(v)
	if f.Sign() == 0 {
		return "0"
	}
	return f.Text('g', 40)
}

// EncStr / DecStr: strings that are not valid UTF-8 are written to run files as "\x01hex:<hex>".
func EncStr(s string) string {
	if utf8.ValidString(s) && !strings.HasPrefix(s, "\x01hex:") {
		return s
	}
	return "\x01hex:" + hex.EncodeToString([]byte(s))
}

func DecStr(s string) string {
	if strings.HasPrefix(s, "\x01hex:") {
		if b, err := hex.DecodeString(strings.TrimPrefix(s, "\x01hex:")); err == nil {
			return string(b)
		}
	}
	return s
}
