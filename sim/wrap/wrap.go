// Package wrap is the simulator's seam: a decorator around any store.Store that
// gives the harness a scheduling point, a fault point and a crash point before
// every store call, and does transaction/IO accounting.
package wrap

import (
	"errors"
	"os"
	"sync/atomic"
	"syscall"

	"github.com/ostafen/clover/v2/store"
)

type Kind uint8

const (
	KBegin Kind = iota
	KGet
	KSet
	KDelete
	KCursor
	KSeek
	KNext
	KValid
	KItem
	KCommit
	KRollback
	KCursorClose
	KClose
	KAfterTx
	NKinds
)

var kindNames = [...]string{"begin", "get", "set", "delete", "cursor", "seek", "next", "valid", "item", "commit", "rollback", "cclose", "close", "aftertx"}

func (k Kind) String() string { return kindNames[k] }

// Faultable kinds are exactly the ones the fault property quantifies over.
func (k Kind) Faultable() bool {
	switch k {
	case KBegin, KGet, KSet, KDelete, KItem, KCommit:
		return true
	}
	return false
}

var ErrInjected = errors.New("simstore: injected store failure")

// Calls counts the store calls of the whole process (read by the hang monitor).
var Calls int64

// CrashSignal is the panic value used to unwind a simulated process crash.
type CrashSignal struct{}

// AbandonSignal is the panic value of an operation abandoned in mid-flight: the
// goroutine executing it unwinds (a panic the caller recovers from, runtime.Goexit),
// the process and the handle live on.
type AbandonSignal struct{}

type Event struct {
	Kind   Kind
	Update bool
	Key    string
}

// Ctl is owned by the engine driving the run.
type Ctl struct {
	// Yield is the scheduler hook, called before every store call (nil: single client).
	Yield func(k Kind, update bool)

	// Plan for the current operation.
	FaultAt    int  // fail the FaultAt-th faultable call of the current op (1-based, 0 = none)
	CrashAt    int  // crash before the CrashAt-th faultable call of the current op (0 = none)
	CrashAfter bool // crash right after that call returned instead of before it
	CrashKill  bool // crash = SIGKILL of this process (worker mode) instead of a panic
	PanicAt    int  // unwind the calling goroutine at the PanicAt-th faultable call of the current op (0 = none)

	// Outcome of the plan.
	FaultFired bool
	FaultKind  Kind
	CrashFired bool
	CrashKind  Kind
	PanicFired bool
	PanicKind  Kind
	Crashed    bool // sticky until ResetCrash

	// Per-operation counters (reset by BeginOp).
	Calls            int
	FCalls           int
	ByKind           [NKinds]int
	Writes           int // Set/Delete calls
	WriteCommits     int // successful commits of update transactions that wrote something
	Commits          int // successful commits of update transactions
	GetsUnderCursor  int
	ReverseCursors   int
	StopRequested    bool
	ItemsAfterStop   int
	WritesBeforeFire int // Set/Delete calls issued in the op before the fault/crash fired

	// Whole-run accounting.
	TxOpen      int
	WriteTxOpen int
	CursorsOpen int
	TotalCalls  int
	// TotalWriteCommits counts committed write transactions over the whole run
	TotalWriteCommits int
	Hash              uint64 // running hash of (kind, update, key) of every call
	FiredByKind       [NKinds]int

	Trace   bool
	Events  []Event
	OnWrite func() // optional probe
}

func NewCtl() *Ctl { return &Ctl{Hash: 1469598103934665603} }

// BeginOp resets the per-operation counters and plan outcome.
func (c *Ctl) BeginOp() {
	c.Calls, c.FCalls, c.Writes, c.WriteCommits, c.Commits = 0, 0, 0, 0, 0
	c.GetsUnderCursor, c.ReverseCursors, c.ItemsAfterStop = 0, 0, 0
	c.StopRequested = false
	c.ByKind = [NKinds]int{}
	c.FaultFired, c.CrashFired, c.PanicFired = false, false, false
	c.WritesBeforeFire = 0
}

// ClearPlan removes any fault/crash plan.
func (c *Ctl) ClearPlan() { c.FaultAt, c.CrashAt, c.CrashAfter, c.PanicAt = 0, 0, false, 0 }

func (c *Ctl) ResetCrash() { c.Crashed = false; c.TxOpen, c.WriteTxOpen, c.CursorsOpen = 0, 0, 0 }

func (c *Ctl) mixHash(k Kind, update bool, key []byte) {
	h := c.Hash
	h ^= uint64(k) + 1
	h *= 1099511628211
	if update {
		h ^= 0x55
		h *= 1099511628211
	}
	for _, b := range key {
		h ^= uint64(b)
		h *= 1099511628211
	}
	c.Hash = h
}

func (c *Ctl) crashNow(k Kind) {
	c.CrashFired, c.CrashKind, c.Crashed = true, k, true
	c.WritesBeforeFire = c.Writes
	if c.CrashKill {
		syscall.Kill(os.Getpid(), syscall.SIGKILL)
		select {}
	}
	panic(CrashSignal{})
}

// before returns (skip, err): when skip is true the inner call must not be made.
func (c *Ctl) before(k Kind, update bool, key []byte) (bool, error) {
	if c.Crashed {
		// the process is gone; deferred rollbacks still run while the panic unwinds
		return true, ErrInjected
	}
	if c.Yield != nil {
		c.Yield(k, update)
	}
	atomic.AddInt64(&Calls, 1)
	c.Calls++
	c.TotalCalls++
	c.ByKind[k]++
	c.mixHash(k, update, key)
	if c.Trace {
		c.Events = append(c.Events, Event{k, update, string(key)})
	}
	if c.StopRequested && k == KItem {
		c.ItemsAfterStop++
	}
	if k.Faultable() {
		c.FCalls++
		if c.CrashAt == c.FCalls && !c.CrashAfter {
			c.crashNow(k)
		}
		if c.PanicAt == c.FCalls {
			c.PanicFired, c.PanicKind = true, k
			c.WritesBeforeFire = c.Writes
			c.PanicAt = 0
			panic(AbandonSignal{})
		}
		if c.FaultAt == c.FCalls {
			c.FaultFired, c.FaultKind = true, k
			c.WritesBeforeFire = c.Writes
			c.FiredByKind[k]++
			return true, ErrInjected
		}
	}
	return false, nil
}

// afterTx is a scheduling point right after a transaction has ended: whatever
// the operation still does with data it read (decoding, post-processing) runs
// while other clients may commit.
func (c *Ctl) afterTx() {
	if c.Yield != nil && !c.Crashed {
		c.Yield(KAfterTx, false)
	}
}

func (c *Ctl) after(k Kind) {
	if k.Faultable() && c.CrashAt == c.FCalls && c.CrashAfter && !c.Crashed {
		c.crashNow(k)
	}
}

// ---- store -----------------------------------------------------------------

type Store struct {
	Inner store.Store
	C     *Ctl
}

func New(inner store.Store, c *Ctl) *Store { return &Store{Inner: inner, C: c} }

func (s *Store) Begin(update bool) (store.Tx, error) {
	skip, err := s.C.before(KBegin, update, nil)
	if skip {
		return nil, err
	}
	tx, err := s.Inner.Begin(update)
	if err != nil {
		return nil, err
	}
	s.C.TxOpen++
	if update {
		s.C.WriteTxOpen++
	}
	w := &Tx{inner: tx, c: s.C, update: update}
	s.C.after(KBegin)
	return w, nil
}

func (s *Store) Close() error {
	skip, err := s.C.before(KClose, false, nil)
	if skip {
		return err
	}
	return s.Inner.Close()
}

type Tx struct {
	inner  store.Tx
	c      *Ctl
	update bool
	done   bool
	wrote  bool
}

func (tx *Tx) finish() {
	if !tx.done {
		tx.done = true
		tx.c.TxOpen--
		if tx.update {
			tx.c.WriteTxOpen--
		}
	}
}

func (tx *Tx) Set(key, value []byte) error {
	skip, err := tx.c.before(KSet, tx.update, key)
	if skip {
		return err
	}
	tx.c.Writes++
	tx.wrote = true
	err = tx.inner.Set(key, value)
	tx.c.after(KSet)
	return err
}

func (tx *Tx) Get(key []byte) ([]byte, error) {
	skip, err := tx.c.before(KGet, tx.update, key)
	if skip {
		return nil, err
	}
	if tx.c.CursorsOpen > 0 {
		tx.c.GetsUnderCursor++
	}
	v, err := tx.inner.Get(key)
	tx.c.after(KGet)
	return v, err
}

func (tx *Tx) Delete(key []byte) error {
	skip, err := tx.c.before(KDelete, tx.update, key)
	if skip {
		return err
	}
	tx.c.Writes++
	tx.wrote = true
	err = tx.inner.Delete(key)
	tx.c.after(KDelete)
	return err
}

func (tx *Tx) Commit() error {
	skip, err := tx.c.before(KCommit, tx.update, nil)
	if skip {
		// commit failed => nothing applied
		if !tx.done {
			tx.inner.Rollback()
			tx.finish()
		}
		return err
	}
	err = tx.inner.Commit()
	tx.finish()
	if err == nil && tx.update {
		tx.c.Commits++
		if tx.wrote {
			tx.c.WriteCommits++
			tx.c.TotalWriteCommits++
		}
	}
	tx.c.after(KCommit)
	tx.c.afterTx()
	return err
}

func (tx *Tx) Rollback() error {
	if tx.c.Crashed {
		if !tx.done {
			tx.inner.Rollback()
			tx.finish()
		}
		return nil
	}
	if tx.done {
		// clover defers Rollback after a successful Commit; the shipped adapters
		// tolerate that, and nothing observable happens
		return nil
	}
	skip, err := tx.c.before(KRollback, tx.update, nil)
	if skip {
		tx.inner.Rollback()
		tx.finish()
		return err
	}
	err = tx.inner.Rollback()
	tx.finish()
	tx.c.afterTx()
	return err
}

func (tx *Tx) Cursor(forward bool) (store.Cursor, error) {
	skip, err := tx.c.before(KCursor, tx.update, nil)
	if skip {
		return nil, err
	}
	cur, err := tx.inner.Cursor(forward)
	if err != nil {
		return nil, err
	}
	if !forward {
		tx.c.ReverseCursors++
	}
	tx.c.CursorsOpen++
	return &Cursor{inner: cur, c: tx.c, update: tx.update}, nil
}

type Cursor struct {
	inner  store.Cursor
	c      *Ctl
	update bool
	closed bool
}

func (cu *Cursor) Seek(key []byte) error {
	skip, err := cu.c.before(KSeek, cu.update, key)
	if skip {
		return err
	}
	return cu.inner.Seek(key)
}

func (cu *Cursor) Next() {
	skip, _ := cu.c.before(KNext, cu.update, nil)
	if skip {
		return
	}
	cu.inner.Next()
}

func (cu *Cursor) Valid() bool {
	skip, _ := cu.c.before(KValid, cu.update, nil)
	if skip {
		return false
	}
	return cu.inner.Valid()
}

func (cu *Cursor) Item() (store.Item, error) {
	skip, err := cu.c.before(KItem, cu.update, nil)
	if skip {
		return store.Item{}, err
	}
	it, err := cu.inner.Item()
	cu.c.after(KItem)
	return it, err
}

func (cu *Cursor) Close() error {
	if cu.closed {
		return nil
	}
	cu.closed = true
	cu.c.CursorsOpen--
	if cu.c.Crashed {
		return cu.inner.Close()
	}
	cu.c.before(KCursorClose, cu.update, nil)
	return cu.inner.Close()
}
