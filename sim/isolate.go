package sim

import (
	"encoding/json"
	"fmt"
	"os"
	"os/exec"
	"runtime"
	"strconv"
	"strings"
	"sync"
	"sync/atomic"
	"syscall"
	"time"

	"verif/sim/wrap"
)

// Process death.
//
// A Go program can die in ways `recover` cannot stop: "fatal error: concurrent
// map writes", a stack overflow from unbounded recursion, an allocation the
// operating system refuses. A public operation that kills the calling process
// is the worst form of "does not return normally", so the harness must report
// it as a violation with a replay file, not as trouble of its own.
//
//  - every worker process caps its address space (RLIMIT_AS), so that a
//    runaway allocation is a Go "out of memory" fatal error in that worker
//    instead of an out-of-memory kill somewhere in the sandbox;
//  - a worker records which run it is executing (<out>.cur); when it dies,
//    the driver re-executes exactly that run in a child process, with the ops
//    traced to a file as they are issued; a death that repeats becomes a run
//    file whose last op is the fatal one;
//  - such run files are executed in a child process wherever they are
//    executed (minimiser, replay gate, `verif replay`), and "the child died
//    with a Go fatal error while executing op #i" is the violation.

const ruleDeath = "C20/process-death"
const ruleBlocked = "C04/blocked-forever"

// ---- hang monitor ---------------------------------------------------------------------
//
// "Later operations on the same handle proceed normally" also fails when one
// never returns: a lock leaked on an error path blocks the next writer inside
// clover, where no store call is pending and the scheduler has nothing to
// decide. A monitor goroutine watches the two things that move while a public
// call is in progress - store calls and call boundaries; when neither has moved
// for hangLimit the process reports HANG and exits, and the driver treats it like
// a process death: the run is re-executed in a child, twice, and a call that
// blocks again at the same place is the violation C04/blocked-forever.
// The limit is wall-clock time, the one place where the harness reads a real
// clock to decide something; it is three orders of magnitude above what a call
// takes, it never turns into a violation unless the re-executions agree, and a
// process that is merely starved ends as harness trouble (exit 2).
const hangLimit = 45 * time.Second

var (
	callsInProgress int32
	callBoundaries  int64
	hangMonitor     sync.Once
)

func callBegin() {
	hangMonitor.Do(func() { go watchForHang() })
	atomic.AddInt64(&callBoundaries, 1)
	atomic.AddInt32(&callsInProgress, 1)
}

func callEnd() {
	atomic.AddInt32(&callsInProgress, -1)
	atomic.AddInt64(&callBoundaries, 1)
}

func watchForHang() {
	var lastCalls, lastBounds int64 = -1, -1
	since := time.Now()
	for {
		time.Sleep(time.Second)
		c, b := atomic.LoadInt64(&wrap.Calls), atomic.LoadInt64(&callBoundaries)
		if c != lastCalls || b != lastBounds || atomic.LoadInt32(&callsInProgress) == 0 {
			lastCalls, lastBounds, since = c, b, time.Now()
			continue
		}
		if time.Since(since) > hangLimit {
			buf := make([]byte, 1<<16)
			n := runtime.Stack(buf, true)
			fmt.Fprintf(os.Stderr, "HANG: a public call has neither returned nor made a store call for %v\n%s\n", hangLimit, clipStacks(string(buf[:n])))
			os.Exit(3)
		}
	}
}

// clipStacks keeps the goroutines that are inside clover.
func clipStacks(all string) string {
	var keep []string
	for _, g := range strings.Split(all, "\n\n") {
		if strings.Contains(g, "github.com/ostafen/clover") {
			if len(g) > 1500 {
				g = g[:1500]
			}
			keep = append(keep, g)
		}
	}
	out := strings.Join(keep, "\n\n")
	if len(out) > 6000 {
		out = out[:6000]
	}
	return out
}

// addressSpaceLimit is generous for the workloads of the harness (tens of
// megabytes live) and far below what the sandbox has.
const addressSpaceLimit = 12 << 30

func limitAddressSpace() {
	if raceBuild() {
		return // the race detector reserves terabytes of shadow address space
	}
	lim := syscall.Rlimit{Cur: addressSpaceLimit, Max: addressSpaceLimit}
	syscall.Setrlimit(syscall.RLIMIT_AS, &lim)
}

// ---- tracing inside the child ------------------------------------------------------

var (
	opTrace     *os.File // explicit op list of the current run, one JSON value per line
	opProgress  *os.File // index of the op being executed
	inChildProc bool
)

type traceHeader struct {
	Header *RunFile `json:"header"`
}

func traceRunStart(rf *RunFile) {
	if opTrace == nil {
		return
	}
	h := *rf
	h.Ops = nil
	b, _ := json.Marshal(traceHeader{&h})
	opTrace.Write(append(b, '\n'))
}

func traceOp(i int, op *Op) {
	if opProgress != nil {
		opProgress.WriteAt([]byte(fmt.Sprintf("%-10d", i)), 0)
	}
	if opTrace == nil {
		return
	}
	b, _ := json.Marshal(op)
	opTrace.Write(append(b, '\n'))
}

func readProgress(path string) int {
	b, err := os.ReadFile(path)
	if err != nil {
		return -1
	}
	n, err := strconv.Atoi(strings.TrimSpace(string(b)))
	if err != nil {
		return -1
	}
	return n
}

type childOutcome struct {
	V       *Violation `json:"v,omitempty"`
	NOps    int        `json:"nops"`
	Trouble string     `json:"trouble,omitempty"`
}

// ChildMain: verif child run <runfile> <outfile> <progressfile>
//
//	verif child regen <prop> <tier> <seed> <jobIndex> <runIndex> <tracefile> <outfile> <progressfile>
func ChildMain(args []string) int {
	limitAddressSpace()
	inChildProc = true
	if len(args) == 4 && args[0] == "run" {
		rf, err := LoadRunFile(args[1])
		if err != nil {
			fmt.Fprintln(os.Stderr, err)
			return 2
		}
		rf.Isolate = false
		rf.Violation = nil
		opProgress, _ = os.Create(args[3])
		o := ExecuteRunFile(rf)
		return writeChildOutcome(args[2], o)
	}
	if len(args) == 9 && args[0] == "regen" {
		prop, tier := args[1], args[2]
		seed, _ := strconv.ParseUint(args[3], 10, 64)
		ji, _ := strconv.Atoi(args[4])
		idx, _ := strconv.ParseUint(args[5], 10, 64)
		jobs := JobsFor(prop, tier)
		if ji < 0 || ji >= len(jobs) {
			fmt.Fprintln(os.Stderr, "bad job index")
			return 2
		}
		opTrace, _ = os.Create(args[6])
		opProgress, _ = os.Create(args[8])
		o := engines[jobs[ji].Engine](&jobs[ji], prop, seed, idx)
		return writeChildOutcome(args[7], o)
	}
	fmt.Fprintln(os.Stderr, "usage: verif child run|regen ...")
	return 2
}

func writeChildOutcome(path string, o *RunOutcome) int {
	co := childOutcome{V: o.V, NOps: o.NOps}
	if o.Trouble != nil {
		co.Trouble = o.Trouble.Error()
	}
	b, _ := json.Marshal(co)
	if err := os.WriteFile(path, b, 0o644); err != nil {
		fmt.Fprintln(os.Stderr, err)
		return 2
	}
	return 0
}

// ---- the parent side -----------------------------------------------------------------

// fatalLine extracts what killed a Go process from its output, "" when the
// output does not show a death of the Go runtime's own making.
func fatalLine(out string) string {
	for _, l := range strings.Split(out, "\n") {
		l = strings.TrimSpace(l)
		switch {
		case strings.HasPrefix(l, "HANG:"),
			strings.HasPrefix(l, "fatal error:"),
			strings.HasPrefix(l, "panic:"),
			strings.HasPrefix(l, "runtime: goroutine stack exceeds"),
			strings.HasPrefix(l, "runtime: out of memory"),
			strings.HasPrefix(l, "SIGSEGV"), strings.HasPrefix(l, "SIGBUS"),
			strings.HasPrefix(l, "unexpected fault address"):
			if len(l) > 160 {
				l = l[:160]
			}
			return l
		}
	}
	return ""
}

// deathClass keeps what identifies the kind of death and drops addresses and sizes.
func deathClass(line string) string {
	if strings.HasPrefix(line, "HANG:") {
		return "blocked"
	}
	for _, k := range []string{"concurrent map", "stack overflow", "stack exceeds", "out of memory", "cannot allocate", "all goroutines are asleep", "SIGSEGV", "SIGBUS", "fault address", "makeslice", "index out of range", "nil pointer"} {
		if strings.Contains(line, k) {
			return k
		}
	}
	if i := strings.Index(line, ":"); i > 0 && len(line) > i+40 {
		return line[:i+40]
	}
	return line
}

func selfExe() string {
	exe, err := os.Executable()
	if err != nil {
		return os.Args[0]
	}
	return exe
}

// runChild runs a child of this binary and reports (outcome, death line, raw output).
// outcome is nil when the child did not complete.
func runChild(timeout time.Duration, outfile string, args ...string) (*childOutcome, string, string) {
	cmd := exec.Command(selfExe(), args...)
	cmd.Env = append(os.Environ(), "GOMEMLIMIT=3GiB", "GOMAXPROCS=2", "GOTRACEBACK=single")
	var buf strings.Builder
	cmd.Stdout, cmd.Stderr = &buf, &buf
	if err := cmd.Start(); err != nil {
		return nil, "", err.Error()
	}
	done := make(chan error, 1)
	go func() { done <- cmd.Wait() }()
	select {
	case <-done:
	case <-time.After(timeout):
		cmd.Process.Kill()
		<-done
		return nil, "", "child timed out\n" + tail(buf.String(), 2000)
	}
	out := buf.String()
	if b, err := os.ReadFile(outfile); err == nil {
		co := &childOutcome{}
		if json.Unmarshal(b, co) == nil {
			return co, "", out
		}
	}
	return nil, fatalLine(out), out
}

// executeIsolated executes a run file in a child process.
func executeIsolated(rf *RunFile) *RunOutcome {
	out := &RunOutcome{RF: rf, Stats: NewStats()}
	dir, err := os.MkdirTemp(os.Getenv("VERIF_SCRATCH"), "verif-iso-")
	if err != nil {
		out.Trouble = err
		return out
	}
	defer os.RemoveAll(dir)
	path := dir + "/run.json"
	c := rf.Clone()
	c.Violation = nil
	if err := c.Save(path); err != nil {
		out.Trouble = err
		return out
	}
	var co *childOutcome
	var death, raw string
	if rf.Engine == "regen" {
		co, death, raw = runChild(5*time.Minute, dir+"/out.json", "child", "regen", rf.Prop, rf.Cfg["tier"], fmt.Sprint(rf.Seed), rf.Cfg["job"], fmt.Sprint(rf.RunIdx), dir+"/trace", dir+"/out.json", dir+"/progress")
	} else {
		co, death, raw = runChild(5*time.Minute, dir+"/out.json", "child", "run", path, dir+"/out.json", dir+"/progress")
	}
	if co != nil {
		if co.Trouble != "" {
			out.Trouble = fmt.Errorf("%s", co.Trouble)
		}
		out.V, out.NOps = co.V, co.NOps
		return out
	}
	if death == "" {
		out.Trouble = fmt.Errorf("child process did not complete and shows no Go fatal error: %s", tail(raw, 600))
		return out
	}
	out.V = deathViolation(rf, readProgress(dir+"/progress"), death)
	return out
}

func deathViolation(rf *RunFile, at int, death string) *Violation {
	v := &Violation{Props: []string{"C20"}, Rule: ruleDeath, OpIdx: at,
		Msg:      "the process executing the operation died: " + death,
		Features: map[string]string{"death": deathClass(death)}}
	if deathClass(death) == "blocked" {
		v.Props, v.Rule = []string{"C04", "C20"}, ruleBlocked
		v.Msg = "the operation never returns: " + death
	}
	if at >= 0 && at < len(rf.Ops) {
		v.OpK = rf.Ops[at].K
		for _, p := range opProps[v.OpK] {
			if p != "C20" {
				v.Props = append(v.Props, p)
			}
		}
	}
	return v
}

// ---- a worker died -------------------------------------------------------------------

type runMarker struct {
	f *os.File
}

func newRunMarker(out string) *runMarker {
	f, err := os.Create(out + ".cur")
	if err != nil {
		return &runMarker{}
	}
	return &runMarker{f}
}

func (m *runMarker) set(ji int, idx uint64) {
	if m.f != nil {
		m.f.WriteAt([]byte(fmt.Sprintf("%-6d %-20d", ji, idx)), 0)
	}
}

func (m *runMarker) done() {
	if m.f != nil {
		name := m.f.Name()
		m.f.Close()
		os.Remove(name)
	}
}

// investigateDeath is called by the driver for a worker that left no result.
// It returns a run file carrying a process-death violation when re-executing
// the run the worker was in kills a child process again, twice; otherwise nil
// and a description (harness trouble).
func investigateDeath(prop, tier string, seed uint64, workerOut, scratch string) (*RunFile, string) {
	b, err := os.ReadFile(workerOut + ".cur")
	if err != nil {
		return nil, "the worker left no run marker"
	}
	var ji int
	var idx uint64
	if _, err := fmt.Sscanf(string(b), "%d %d", &ji, &idx); err != nil {
		return nil, "unreadable run marker"
	}
	jobs := JobsFor(prop, tier)
	if ji < 0 || ji >= len(jobs) {
		return nil, "bad run marker"
	}
	dir, err := os.MkdirTemp(scratch, "death-")
	if err != nil {
		return nil, err.Error()
	}
	defer os.RemoveAll(dir)
	var deaths []string
	var rf *RunFile
	for attempt := 0; attempt < 2; attempt++ {
		trace, outp, prog := fmt.Sprintf("%s/trace%d", dir, attempt), fmt.Sprintf("%s/out%d", dir, attempt), fmt.Sprintf("%s/prog%d", dir, attempt)
		co, death, raw := runChild(10*time.Minute, outp, "child", "regen", prop, tier, fmt.Sprint(seed), fmt.Sprint(ji), fmt.Sprint(idx), trace, outp, prog)
		if co != nil {
			return nil, fmt.Sprintf("run %d of job %d completes when executed again (the worker was probably killed from outside)", idx, ji)
		}
		if death == "" {
			return nil, "re-executing the run fails without a Go fatal error: " + tail(raw, 600)
		}
		deaths = append(deaths, deathClass(death))
		if attempt == 0 {
			rf = runFileFromTrace(trace)
			if rf != nil && rf.Engine == "hist" && len(rf.Ops) > 0 {
				rf.Isolate = true
				rf.Violation = deathViolation(rf, len(rf.Ops)-1, death)
			} else {
				// engines that are not a plain op list: the replay regenerates the run
				rf = &RunFile{Prop: prop, Engine: "regen", Seed: seed, RunIdx: idx, Backend: "-", Isolate: true,
					Cfg: map[string]string{"job": strconv.Itoa(ji), "tier": tier, "jobEngine": jobs[ji].Engine}}
				rf.Violation = deathViolation(rf, readProgress(prog), death)
			}
		}
	}
	if deaths[0] != deaths[1] {
		return nil, fmt.Sprintf("the run dies differently each time (%q, %q)", deaths[0], deaths[1])
	}
	return rf, ""
}

func runFileFromTrace(path string) *RunFile {
	b, err := os.ReadFile(path)
	if err != nil {
		return nil
	}
	lines := strings.Split(string(b), "\n")
	if len(lines) == 0 {
		return nil
	}
	var h traceHeader
	if json.Unmarshal([]byte(lines[0]), &h) != nil || h.Header == nil {
		return nil
	}
	rf := h.Header
	for _, l := range lines[1:] {
		if strings.TrimSpace(l) == "" {
			continue
		}
		if strings.HasPrefix(l, `{"header"`) {
			return nil // several executions behind one run: not a plain op list
		}
		var op Op
		if json.Unmarshal([]byte(l), &op) != nil {
			break // a torn last line
		}
		rf.Ops = append(rf.Ops, op)
	}
	return rf
}
