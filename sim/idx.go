package sim

import (
	"fmt"
	"os"
	"sort"
	"strings"

	clover "github.com/ostafen/clover/v2"
	"github.com/ostafen/clover/v2/index"
	"github.com/ostafen/clover/v2/store"

	"verif/sim/rng"
	"verif/sim/val"
	"verif/sim/wrap"
)

// E-IDX: index.RangeIndex driven directly over a transaction of each backend.
// Run-file ops:
//   IdxAdd{ID, Docs[0]=value}  IdxRemove{ID, Docs[0]=value}
//   IdxScan{Docs[0]=start, Docs[1]=end, Field="<si><ei><rev>" flags, StopAfter}
//   IdxIterate{Field=rev flag, StopAfter}
//   IdxIntersect{Docs = s1,e1,s2,e2, Field = 4 inclusion flags}
//   IdxCommit (commit the writing transaction; later scans use a read transaction)

func init() {
	engines["idx"] = genIdx
	engineReplayers["idx"] = runIdx
}

type idxEntry struct {
	v  interface{}
	id string
}

func b01(b bool) string {
	if b {
		return "1"
	}
	return "0"
}

func idxValuePool(r *rng.R) []interface{} {
	pool := safePool()
	// thin it, but keep nil and a few numbers
	out := []interface{}{nil, i64(1), f64(1), i64(2)}
	if r.Chance(0.3) {
		out = append(out, longStr("a"), longStr("b"), longStr("bb"), medStr("x"), medStr("y"))
	}
	if r.Chance(0.15) {
		// integers far apart (their difference does not fit 64 bits) and beyond 2^53 but exact in float64
		out = append(out, i64(3<<61), i64(-(3 << 61)), i64(1<<60), u64(1<<63))
	}
	n := r.Range(5, 14)
	for i := 0; i < n; i++ {
		out = append(out, val.Clone(pool[r.Intn(len(pool))]))
	}
	return out
}

func genIdx(job *Job, prop string, seed, idx uint64) *RunOutcome {
	r := rng.Derive(seed, rng.HashString(prop), rng.HashString("idx"), idx)
	be := job.Backends[r.Intn(len(job.Backends))]
	rf := &RunFile{Prop: prop, Engine: "idx", Seed: seed, RunIdx: idx, Backend: be, Mode: "idx", IDSeed: r.U64(), Cfg: map[string]string{}}
	namePairs := []string{"c|f", "c|f", "users|profile.address.country", "a-rather-long-collection-name-0123456789|x", "c|a_rather_long_field_name_for_an_index.with.a.dotted.path", "日本語のコレクション|フィールド", "orders-2024|customer.id"}
	rf.Cfg["names"] = namePairs[r.Intn(len(namePairs))]
	g := &Gen{R: r}
	pool := idxValuePool(r)
	pick := func() interface{} { return val.Clone(pool[r.Intn(len(pool))]) }
	var live []idxEntry
	nAdd := r.Range(0, 30)
	for i := 0; i < nAdd; i++ {
		e := idxEntry{pick(), g.newID()}
		live = append(live, e)
		rf.Ops = append(rf.Ops, Op{K: "IdxAdd", ID: e.id, Docs: []val.V{val.Wrap(e.v)}})
		if len(live) > 2 && r.Chance(0.12) {
			j := r.Intn(len(live))
			rf.Ops = append(rf.Ops, Op{K: "IdxRemove", ID: live[j].id, Docs: []val.V{val.Wrap(live[j].v)}})
			live = append(live[:j], live[j+1:]...)
		}
	}
	scan := func() Op {
		var s, e interface{}
		switch r.Intn(7) {
		case 0: // nil-only range
			return Op{K: "IdxScan", Docs: []val.V{val.Wrap(nil), val.Wrap(nil)}, Field: "11" + b01(r.Bool()), StopAfter: stopAfter(r)}
		case 1:
			s = pickNonNil(r, pool)
		case 2:
			e = pickNonNil(r, pool)
		default:
			s, e = pickNonNil(r, pool), pickNonNil(r, pool)
			if r.Chance(0.3) {
				e = val.Clone(s)
			}
		}
		// an open end is written the way the planner writes it: nil bound, flag false
		si, ei := r.Bool() && s != nil, r.Bool() && e != nil
		return Op{K: "IdxScan", Docs: []val.V{val.Wrap(s), val.Wrap(e)}, Field: b01(si) + b01(ei) + b01(r.Bool()), StopAfter: stopAfter(r)}
	}
	nScan := r.Range(4, 16)
	committed := false
	for i := 0; i < nScan; i++ {
		if !committed && r.Chance(0.25) {
			rf.Ops = append(rf.Ops, Op{K: "IdxCommit"})
			committed = true
		}
		switch r.Intn(8) {
		case 0:
			rf.Ops = append(rf.Ops, Op{K: "IdxIterate", Field: b01(r.Bool()), StopAfter: stopAfter(r)})
		case 1:
			a, b := scan(), scan()
			rf.Ops = append(rf.Ops, Op{K: "IdxIntersect", Docs: []val.V{a.Docs[0], a.Docs[1], b.Docs[0], b.Docs[1]}, Field: a.Field[:2] + b.Field[:2]})
		default:
			rf.Ops = append(rf.Ops, scan())
		}
	}
	return runIdx(rf)
}

func stopAfter(r *rng.R) int {
	if r.Chance(0.25) {
		return r.Range(1, 4)
	}
	return 0
}

func pickNonNil(r *rng.R, pool []interface{}) interface{} {
	for i := 0; i < 20; i++ {
		v := pool[r.Intn(len(pool))]
		if v != nil {
			return val.Clone(v)
		}
	}
	return i64(1)
}

// inRange is the documented meaning of a Range: a nil bound is an open end,
// except in the nil-only range (both bounds nil, both included).
func inRange(v, s, e interface{}, si, ei bool) bool {
	if s == nil && e == nil && si && ei {
		return v == nil
	}
	if s != nil {
		c := val.Compare(v, s)
		if c < 0 || (c == 0 && !si) {
			return false
		}
	}
	if e != nil {
		c := val.Compare(v, e)
		if c > 0 || (c == 0 && !ei) {
			return false
		}
	}
	return true
}

func runIdx(rf *RunFile) *RunOutcome {
	out := &RunOutcome{RF: rf, Stats: NewStats(), NOps: len(rf.Ops)}
	dir, err := scratchDir()
	if err != nil {
		out.Trouble = err
		return out
	}
	defer os.RemoveAll(dir)
	be, err := MakeBackend(rf.Backend, dir)
	if err != nil {
		out.Trouble = err
		return out
	}
	defer be.Destroy()
	inner, err := be.Open()
	if err != nil {
		out.Trouble = err
		return out
	}
	defer inner.Close()
	ctl := wrap.NewCtl()
	st := wrap.New(inner, ctl)
	var tx store.Tx
	writing := true
	tx, err = st.Begin(true)
	if err != nil {
		out.Trouble = err
		return out
	}
	defer func() { tx.Rollback() }()
	// a sibling index with a prefix-related field name must never interfere
	collName, fieldName := "c", "f"
	if n := rf.Cfg["names"]; n != "" {
		parts := strings.SplitN(n, "|", 2)
		collName, fieldName = parts[0], parts[1]
	}
	sibling := index.CreateIndex(collName, fieldName+"x", index.SingleField, tx)
	sibling.Add("00000000-0000-4000-8000-0000000000aa", int64(1), -1)
	sibling.Add("00000000-0000-4000-8000-0000000000ab", "zz", -1)
	idx := index.CreateIndex(collName, fieldName, index.SingleField, tx).(index.RangeIndex)
	var live []idxEntry
	fail := func(i int, rule, msg string, feats map[string]string) {
		if feats == nil {
			feats = map[string]string{}
		}
		feats["backend"] = rf.Backend
		feats["inWritingTx"] = b01(writing)
		out.V = &Violation{Props: []string{"C17"}, Rule: rule, Msg: msg, OpIdx: i, OpK: rf.Ops[i].K, Features: feats}
	}
	type scanRes struct {
		ids   []string
		calls int
		err   error
		pan   interface{}
	}
	doScan := func(fn func(cb func(string) error) error, stop int) scanRes {
		var res scanRes
		ctl.BeginOp()
		func() {
			defer func() {
				if r := recover(); r != nil {
					res.pan = r
				}
			}()
			res.err = fn(func(id string) error {
				res.calls++
				res.ids = append(res.ids, id)
				if stop > 0 && res.calls >= stop {
					ctl.StopRequested = true
					return clover.VerifErrStopIteration
				}
				return nil
			})
		}()
		return res
	}
	valueOf := func(id string) (interface{}, bool) {
		for _, e := range live {
			if e.id == id {
				return e.v, true
			}
		}
		return nil, false
	}
	// check a scan result against the model selection
	check := func(i int, res scanRes, want []idxEntry, reverse bool, stop int, what string, feats map[string]string) bool {
		out.Stats.Checks["idx-scan"]++
		if res.pan != nil {
			out.V = &Violation{Props: []string{"C17", "C20"}, Rule: "C20/panic", Msg: fmt.Sprintf("%s panicked: %v", what, res.pan), OpIdx: i, OpK: rf.Ops[i].K, Features: map[string]string{"backend": rf.Backend}}
			return false
		}
		if res.err != nil {
			fail(i, "C17/scan-error", fmt.Sprintf("%s failed: %v", what, res.err), feats)
			return false
		}
		wantSet := map[string]bool{}
		for _, e := range want {
			wantSet[e.id] = true
		}
		seen := map[string]bool{}
		var prev interface{}
		for j, id := range res.ids {
			v, ok := valueOf(id)
			if !ok {
				fail(i, "C17/foreign-id", fmt.Sprintf("%s yielded id %q which is not in the index", what, id), feats)
				return false
			}
			if seen[id] {
				fail(i, "C17/duplicate", fmt.Sprintf("%s yielded id %s twice", what, id), feats)
				return false
			}
			seen[id] = true
			if !wantSet[id] {
				fail(i, "C17/out-of-range", fmt.Sprintf("%s yielded id %s whose value %s is outside the range", what, id, val.String(v)), feats)
				return false
			}
			if j > 0 {
				c := val.Compare(prev, v)
				if (!reverse && c > 0) || (reverse && c < 0) {
					fail(i, "C17/order", fmt.Sprintf("%s: value %s came before %s", what, val.String(prev), val.String(v)), feats)
					return false
				}
			}
			prev = v
		}
		if stop > 0 && len(want) >= stop {
			out.Stats.Probes["idx-stop-requested"]++
			if res.calls != stop {
				fail(i, "C17/stop", fmt.Sprintf("%s: consumer asked to stop at call %d but was called %d times", what, stop, res.calls), feats)
				return false
			}
			if ctl.ItemsAfterStop > 1 { // one look-ahead read is a legitimate way to iterate
				fail(i, "C17/stop", fmt.Sprintf("%s: %d more cursor items were read after the consumer asked to stop", what, ctl.ItemsAfterStop), feats)
				return false
			}
			// the yielded ids must be a prefix of a valid ordering: every skipped entry must not sort strictly before the last yielded one
			last, _ := valueOf(res.ids[len(res.ids)-1])
			for _, e := range want {
				if seen[e.id] {
					continue
				}
				c := val.Compare(e.v, last)
				if (!reverse && c < 0) || (reverse && c > 0) {
					fail(i, "C17/missing", fmt.Sprintf("%s stopped after %d entries but skipped %s which sorts before the last yielded value %s", what, stop, val.String(e.v), val.String(last)), feats)
					return false
				}
			}
			return true
		}
		if len(res.ids) != len(want) {
			var miss []string
			for _, e := range want {
				if !seen[e.id] {
					miss = append(miss, val.String(e.v))
				}
			}
			if len(miss) > 4 {
				miss = miss[:4]
			}
			fail(i, "C17/missing", fmt.Sprintf("%s yielded %d of %d in-range entries; missing values e.g. %v", what, len(res.ids), len(want), miss), feats)
			return false
		}
		if len(want) > 0 {
			out.Stats.Probes["idx-scan-nonempty"]++
		}
		return true
	}
	mkRange := func(o *Op, off int, flags string) *index.Range {
		return &index.Range{Start: val.Clone(o.Docs[off].X), End: val.Clone(o.Docs[off+1].X), StartIncluded: flags[0] == '1', EndIncluded: flags[1] == '1'}
	}
	selectIn := func(r *index.Range) []idxEntry {
		var w []idxEntry
		for _, e := range live {
			if inRange(e.v, r.Start, r.End, r.StartIncluded, r.EndIncluded) {
				w = append(w, e)
			}
		}
		return w
	}
	for i := range rf.Ops {
		op := &rf.Ops[i]
		switch op.K {
		case "IdxAdd":
			if err := idx.Add(op.ID, val.Clone(op.Docs[0].X), -1); err != nil {
				fail(i, "C17/add-error", fmt.Sprintf("Add(%s) failed: %v", val.String(op.Docs[0].X), err), nil)
			}
			live = append(live, idxEntry{op.Docs[0].X, op.ID})
		case "IdxRemove":
			if err := idx.Remove(op.ID, val.Clone(op.Docs[0].X)); err != nil {
				fail(i, "C17/remove-error", fmt.Sprintf("Remove failed: %v", err), nil)
			}
			for j := range live {
				if live[j].id == op.ID {
					live = append(live[:j], live[j+1:]...)
					break
				}
			}
		case "IdxCommit":
			if writing {
				if err := tx.Commit(); err != nil {
					out.Trouble = fmt.Errorf("commit: %v", err)
					return out
				}
				writing = false
				tx, err = st.Begin(false)
				if err != nil {
					out.Trouble = err
					return out
				}
				idx = index.CreateIndex(collName, fieldName, index.SingleField, tx).(index.RangeIndex)
				out.Stats.Probes["idx-scan-in-read-tx"]++
			}
		case "IdxScan":
			r := mkRange(op, 0, op.Field)
			reverse := op.Field[2] == '1'
			want := selectIn(r)
			feats := map[string]string{"reverse": b01(reverse), "startIncl": b01(r.StartIncluded), "endIncl": b01(r.EndIncluded), "openStart": b01(r.Start == nil), "openEnd": b01(r.End == nil)}
			what := fmt.Sprintf("IterateRange(start=%s incl=%v, end=%s incl=%v, reverse=%v) over %d entries", val.String(r.Start), r.StartIncluded, val.String(r.End), r.EndIncluded, reverse, len(live))
			res := doScan(func(cb func(string) error) error { return idx.IterateRange(r, reverse, cb) }, op.StopAfter)
			if reverse {
				out.Stats.Probes["idx-reverse-scan"]++
			}
			if r.IsNil() {
				out.Stats.Probes["idx-nil-only-range"]++
			}
			for _, e := range want {
				if (r.End != nil && val.Compare(e.v, r.End) == 0) || (r.Start != nil && val.Compare(e.v, r.Start) == 0) {
					out.Stats.Probes["idx-bound-equals-stored-value"]++
					break
				}
			}
			// IsEmpty must only be true if nothing can lie in the range
			if r.IsEmpty() && len(want) > 0 {
				fail(i, "C17/isempty", fmt.Sprintf("Range(start=%s incl=%v, end=%s incl=%v).IsEmpty() is true but %d stored values lie in it", val.String(r.Start), r.StartIncluded, val.String(r.End), r.EndIncluded, len(want)), feats)
				break
			}
			check(i, res, want, reverse, op.StopAfter, what, feats)
		case "IdxIterate":
			reverse := op.Field == "1"
			res := doScan(func(cb func(string) error) error { return idx.Iterate(reverse, cb) }, op.StopAfter)
			check(i, res, live, reverse, op.StopAfter, fmt.Sprintf("Iterate(reverse=%v) over %d entries", reverse, len(live)), map[string]string{"reverse": b01(reverse), "full": "1"})
		case "IdxIntersect":
			r1, r2 := mkRange(op, 0, op.Field[:2]), mkRange(op, 2, op.Field[2:])
			inter := r1.Intersect(r2)
			out.Stats.Checks["idx-scan"]++
			// judged through scans: scan(r1 ∩ r2) ⊇ scan(r1) ∩ scan(r2)
			got := doScan(func(cb func(string) error) error { return idx.IterateRange(inter, false, cb) }, 0)
			if got.pan != nil || got.err != nil {
				fail(i, "C17/scan-error", fmt.Sprintf("scan of the intersection %+v failed: %v %v", *inter, got.err, got.pan), nil)
				break
			}
			gs := map[string]bool{}
			for _, id := range got.ids {
				gs[id] = true
			}
			for _, e := range live {
				if inRange(e.v, r1.Start, r1.End, r1.StartIncluded, r1.EndIncluded) && inRange(e.v, r2.Start, r2.End, r2.StartIncluded, r2.EndIncluded) && !gs[e.id] {
					fail(i, "C17/intersect", fmt.Sprintf("value %s lies in %+v and in %+v but not in their intersection %+v (IsEmpty=%v)", val.String(e.v), *r1, *r2, *inter, inter.IsEmpty()), nil)
					break
				}
			}
			out.Stats.Probes["idx-intersect"]++
		}
		if out.V != nil {
			break
		}
	}
	out.Stats.StoreCalls = ctl.TotalCalls
	out.Hash = ctl.Hash
	return out
}

var _ = sort.Strings
var _ = strings.Join
