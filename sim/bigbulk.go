package sim

import (
	"fmt"
	"strings"

	"verif/sim/model"
	"verif/sim/rng"
	"verif/sim/val"
)

// bigbulk: collection sizes from empty to several thousand documents, record
// sizes varied so that page boundaries move, index sets, then bulk operations.
// The run file is an ordinary E-HIST run file (explicit ops), so it replays and
// minimises like any other.

func init() {
	engines["bigbulk"] = genBigBulk
}

var bigSizes = []int{0, 1, 2, 3, 5, 8, 13, 21, 34, 60, 100, 150, 250, 400, 700, 1000, 1500, 2500, 4000, 5000}

func genBigBulk(job *Job, prop string, seed, idx uint64) *RunOutcome {
	r := rng.Derive(seed, rng.HashString(prop), rng.HashString("bigbulk"), idx)
	be := job.Backends[r.Intn(len(job.Backends))]
	maxN := 5000
	if v, ok := job.Params["maxN"]; ok {
		fmt.Sscan(v, &maxN)
	}
	n := bigSizes[r.Intn(len(bigSizes))]
	for n > maxN {
		n = bigSizes[r.Intn(len(bigSizes))]
	}
	if job.Params["genonly"] == "1" {
		n = []int{1500, 2500, 4000, 5000, 7000}[r.Intn(5)]
	}
	if strings.HasPrefix(be, "badger") && n > 150 {
		n = bigSizes[r.Intn(9)]
	}
	rf := &RunFile{Prop: prop, Engine: "hist", Seed: seed, RunIdx: idx, Backend: be, Mode: "bigbulk", IDSeed: r.U64(), Cfg: map[string]string{"faults": "none", "n": fmt.Sprint(n)}}
	cfgFromExecOpt(ExecOpt{AuditEvery: 0, FullCompare: false}, rf.Cfg)
	g := &Gen{R: r}
	coll := "big"
	rf.Ops = append(rf.Ops, Op{K: "CreateCollection", Coll: coll})
	idxFields := []string{}
	for _, f := range []string{"k", "s", "m"} {
		if r.Chance(0.45) {
			idxFields = append(idxFields, f)
		}
	}
	before := r.Bool()
	if before {
		for _, f := range idxFields {
			rf.Ops = append(rf.Ops, Op{K: "CreateIndex", Coll: coll, Field: f})
		}
	}
	padLens := []int{0, 0, 10, 60, 200, 500}
	padBase := padLens[r.Intn(len(padLens))]
	mod := []int{2, 3, 7, 50, 1000000}[r.Intn(5)]
	var batch []val.V
	flush := func() {
		if len(batch) > 0 {
			rf.Ops = append(rf.Ops, Op{K: "Insert", Coll: coll, Docs: batch})
			batch = nil
		}
	}
	for i := 0; i < n; i++ {
		pad := padBase
		if r.Chance(0.3) {
			pad = padLens[r.Intn(len(padLens))]
		}
		d := map[string]interface{}{"_id": g.newID(), "k": int64(i % mod), "s": fmt.Sprintf("s%04d", (i*7919)%(n+1)), "pad": strings.Repeat("p", pad)}
		if i%3 == 0 {
			d["m"] = int64(i)
		} else if i%3 == 1 {
			d["m"] = fmt.Sprintf("m%d", i%11)
		}
		batch = append(batch, val.Wrap(d))
		if len(batch) >= 400 {
			flush()
		}
	}
	flush()
	if !before {
		for _, f := range idxFields {
			rf.Ops = append(rf.Ops, Op{K: "CreateIndex", Coll: coll, Field: f})
		}
	}
	if job.Params["export"] == "1" {
		// a large collection exported and imported back (the file is written and read in pieces by some implementations)
		rf.Ops = append(rf.Ops, Op{K: "Export", Coll: coll, File: "big.json"}, Op{K: "Import", Coll: "big2", File: "big.json"})
		if r.Bool() {
			rf.Ops = append(rf.Ops, Op{K: "Import", Coll: coll, File: "big.json"}) // existing name: must fail, nothing changes
		}
	}
	lit := func(x int64) *model.Operand { return &model.Operand{Lit: val.Wrap(x)} }
	crit := func() *model.Crit {
		switch r.Intn(7) {
		case 0:
			return nil
		case 1:
			return &model.Crit{Op: "gte", F: "k", A: lit(int64(r.Intn(mod%100 + 1)))}
		case 2:
			return &model.Crit{Op: "lt", F: "k", A: lit(int64(r.Intn(mod%100+1) + 1))}
		case 3:
			return &model.Crit{Op: "eq", F: "k", A: lit(int64(r.Intn(mod%100 + 1)))}
		case 4:
			return &model.Crit{Op: "gt", F: "s", A: &model.Operand{Lit: val.Wrap(fmt.Sprintf("s%04d", r.Intn(n+1)))}}
		case 5:
			return &model.Crit{Op: "exists", F: "m"}
		default:
			return &model.Crit{Op: "neq", F: "k", A: lit(int64(r.Intn(mod%100 + 1)))}
		}
	}
	if job.Params["reads"] == "1" {
		// sorted and windowed reads over a large collection
		for i := r.Range(3, 7); i > 0; i-- {
			q := &model.Query{Coll: coll, Crit: crit(), SortCalls: true}
			flds := []string{"k", "s", "m", "pad", "_id"}
			q.Sort = []model.SortOpt{{Field: flds[r.Intn(len(flds))], Dir: []int{1, -1}[r.Intn(2)]}}
			if r.Chance(0.5) {
				q.Sort = append(q.Sort, model.SortOpt{Field: flds[r.Intn(len(flds))], Dir: []int{1, -1}[r.Intn(2)]})
			}
			if r.Chance(0.8) {
				q.HasSkip, q.Skip = true, []int{0, 1, 5, n / 3, n / 2}[r.Intn(5)]
			}
			if r.Chance(0.8) {
				q.HasLimit, q.Limit = true, []int{1, 5, 17, n / 4, n}[r.Intn(5)]
			}
			if job.Params["derived"] == "1" {
				rf.Ops = append(rf.Ops, Op{K: "Derived", Q: q, StopAfter: []int{0, 1, 3, 300}[r.Intn(4)]})
			} else {
				rf.Ops = append(rf.Ops, Op{K: "FindAll", Q: q})
			}
		}
	}
	nOps := r.Range(1, 3)
	tag := 0
	for i := 0; i < nOps; i++ {
		q := &model.Query{Coll: coll, Crit: crit()}
		if r.Chance(0.35) {
			q.SortCalls = true
			q.Sort = []model.SortOpt{{Field: []string{"k", "s", "m", "_id"}[r.Intn(4)], Dir: []int{1, -1}[r.Intn(2)]}}
			if r.Chance(0.6) {
				q.Sort = append(q.Sort, model.SortOpt{Field: "_id", Dir: 1})
			}
		}
		if r.Chance(0.3) {
			if r.Bool() {
				q.HasSkip, q.Skip = true, r.Intn(n+2)
			}
			if r.Bool() {
				q.HasLimit, q.Limit = true, r.Intn(n+2)
			}
		}
		tag++
		upd := map[string]val.V{"tag": val.Wrap(fmt.Sprintf("T%d", tag))}
		switch r.Intn(4) {
		case 0:
			upd["k"] = val.Wrap(int64(r.Intn(mod%100+1) + 1)) // rewrites the filtered / sorted / indexed field
		case 1:
			upd["s"] = val.Wrap(fmt.Sprintf("s%04d", r.Intn(n+1)))
		case 2:
			upd["pad"] = val.Wrap(strings.Repeat("q", padLens[r.Intn(len(padLens))])) // changes the record size
		}
		switch r.Intn(8) {
		case 0, 1:
			rf.Ops = append(rf.Ops, Op{K: "Update", Q: q, Upd: upd})
		case 2, 3:
			rf.Ops = append(rf.Ops, Op{K: "UpdateFunc", Q: q, Upd: upd, UpdStyle: updStyles[r.Intn(len(updStyles))]})
		case 4, 5:
			rf.Ops = append(rf.Ops, Op{K: "Delete", Q: q})
		case 6:
			rf.Ops = append(rf.Ops, Op{K: "DropCollection", Coll: coll})
			rf.Ops = append(rf.Ops, Op{K: "CreateCollection", Coll: coll})
		default:
			if len(idxFields) > 0 {
				rf.Ops = append(rf.Ops, Op{K: "DropIndex", Coll: coll, Field: idxFields[r.Intn(len(idxFields))]})
			}
			rf.Ops = append(rf.Ops, Op{K: "Delete", Q: &model.Query{Coll: coll, Crit: q.Crit}})
		}
		if be != "badger-mem" && r.Chance(0.2) {
			rf.Ops = append(rf.Ops, Op{K: "Reopen"})
		}
	}
	o := runHist(rf, nil, len(rf.Ops))
	if o.Stats != nil {
		switch {
		case n >= 1000:
			o.Stats.Probes["bigbulk-n>=1000"]++
		case n >= 100:
			o.Stats.Probes["bigbulk-n>=100"]++
		default:
			o.Stats.Probes["bigbulk-n<100"]++
		}
	}
	return o
}
