//go:build race

package sim

import (
	"runtime"
	"time"
)

// Race-detector-invisible hand-off. A channel (or atomic) hand-off would put a
// happens-before edge between every pair of scheduler steps, and the race
// detector could then never report anything under the serialized schedule. The
// flag below is read and written with plain loads/stores from functions that
// are not instrumented, so the detector sees no synchronisation between
// clients beyond what clover and the store themselves do - as in production.
type hflag struct {
	v uint32
	_ [60]byte
}

type handoff struct{ p *hflag }

func newHandoff() handoff { return handoff{p: &hflag{}} }

//go:norace
func (h handoff) signal() { h.p.v = 1 }

//go:norace
func (h handoff) poll() bool {
	if h.p.v != 0 {
		h.p.v = 0
		return true
	}
	return false
}

//go:norace
func (h handoff) wait() {
	for i := 0; ; i++ {
		if h.poll() {
			return
		}
		if i < 200 {
			runtime.Gosched()
		} else {
			time.Sleep(20 * time.Microsecond)
		}
	}
}

func raceBuild() bool { return true }
