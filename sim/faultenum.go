package sim

import (
	"fmt"
	"os"
	"sort"
	"strconv"
	"strings"

	"verif/sim/rng"
	"verif/sim/val"
	"verif/sim/wrap"
)

// E-FAULT / E-CRASH(mem): position enumeration.
//
// A run file of these engines is: prefix ops, then the target op (index
// Cfg["target"]), then one follow-up write. The engine executes the prefix and
// the target fault-free once to count the target's faultable store calls N,
// then for every k in 1..N builds a fresh database, replays the prefix, runs
// the target with the k-th call failed (engine "fault") or with the process
// crashed before / after the k-th call (engine "crash"), and finally runs the
// follow-up write. Cfg["k"] (and Cfg["post"]) pin a single position in replay
// files.

func init() {
	engines["fault"] = func(job *Job, prop string, seed, idx uint64) *RunOutcome {
		return genEnum("fault", job, prop, seed, idx)
	}
	engines["crash"] = func(job *Job, prop string, seed, idx uint64) *RunOutcome {
		return genEnum("crash", job, prop, seed, idx)
	}
	engineReplayers["fault"] = runEnum
	engineReplayers["crash"] = runEnum
}

func genEnum(engine string, job *Job, prop string, seed, idx uint64) *RunOutcome {
	r := rng.Derive(seed, rng.HashString(prop), rng.HashString(engine), idx)
	be := job.Backends[r.Intn(len(job.Backends))]
	mode := job.Mode
	if mode == "" {
		modes := []string{"audit", "bulk", "ids", "catalog", "indexcat", "query", "export", "derived"}
		mode = modes[r.Intn(len(modes))]
	}
	cfg := DrawCfg(r, mode, "none")
	cfg.Determ = engine == "crash"
	cfg.NOps = r.Range(3, 26)
	if !isMemName(be) && cfg.NOps > 14 {
		cfg.NOps = 14
	}
	rf := &RunFile{Prop: prop, Engine: engine, Seed: seed, RunIdx: idx, Backend: be, Mode: mode, IDSeed: r.U64(), Cfg: map[string]string{"faults": "none"}}
	cfgFromExecOpt(ExecOpt{AuditEvery: 0, FullCompare: true}, rf.Cfg)
	// generate prefix + target by running against MEM
	out := &RunOutcome{RF: rf}
	dir, err := scratchDir()
	if err != nil {
		out.Trouble = err
		return out
	}
	defer os.RemoveAll(dir)
	mb, _ := MakeBackend("mem-sw-livecur", dir)
	e, err := NewExec(mb, dir, rf.IDSeed, ExecOpt{FullCompare: false})
	if err != nil {
		out.Trouble = err
		return out
	}
	g := NewGen(r, cfg)
	for i := 0; i < cfg.NOps; i++ {
		o := g.Next(e.M)
		rf.Ops = append(rf.Ops, o)
		if !e.Step(i, &rf.Ops[len(rf.Ops)-1]) {
			break
		}
	}
	if e.V != nil {
		// the fault-free history itself violates something: that is E-HIST's business
		e.Finish()
		out.V = e.V
		out.Stats = e.Stats
		rf.Engine = "hist"
		return out
	}
	// the target: prefer write ops and composites, but reads are part of the quantifier too
	var target Op
	for tries := 0; tries < 6; tries++ {
		target = g.Next(e.M)
		if !isMemName(be) && tries < 4 {
			switch target.K {
			case "DropIndex", "DropCollection", "Delete", "Update", "UpdateFunc", "CreateIndex", "FindAll", "Derived", "ListCollections":
			default:
				continue // on real engines prefer operations that hold cursors: their cleanup differs per engine
			}
			break
		}
		switch target.K {
		case "HasCollection", "ListCollections", "HasIndex", "ListIndexes", "FindById", "FindAll", "Derived":
			if r.Chance(0.7) {
				continue
			}
		}
		break
	}
	if names := e.M.CollNames(); len(names) > 0 && r.Chance(0.12) {
		// a large batch: anything that splits a big insert into several store
		// transactions only shows at the later commits
		coll := names[r.Intn(len(names))]
		n := []int{129, 130, 257, 300, 520, 1025, 1030}[r.Intn(7)]
		target = Op{K: "Insert", Coll: coll}
		for i := 0; i < n; i++ {
			target.Docs = append(target.Docs, val.Wrap(map[string]interface{}{"_id": g.newID(), "a": int64(i % 7), "x": int64(i)}))
		}
		if r.Chance(0.4) {
			// large records: the batch exceeds the transaction size limit of a small badger
			pad := strings.Repeat("p", 700)
			for i := range target.Docs {
				target.Docs[i].X.(map[string]interface{})["pad"] = pad
			}
		}
		if engine == "fault" && r.Chance(0.5) {
			// an offending document late in the batch: duplicate of an earlier one, or malformed
			pos := n - 1 - r.Intn(n/8+1)
			d := target.Docs[pos].X.(map[string]interface{})
			if r.Bool() {
				d["_id"] = target.Docs[r.Intn(pos)].X.(map[string]interface{})["_id"]
			} else {
				d["_id"] = "not-a-uuid"
			}
		}
	}
	target.Fault, target.Crash = 0, 0
	rf.Ops = append(rf.Ops, target)
	rf.Cfg["target"] = strconv.Itoa(len(rf.Ops) - 1)
	// follow-up write, valid in the state before the target (a failed target changes nothing)
	follow := Op{K: "CreateCollection", Coll: "after-fault"}
	if names := e.M.CollNames(); len(names) > 0 && r.Bool() {
		follow = Op{K: "Insert", Coll: names[r.Intn(len(names))], Docs: []val.V{val.Wrap(g.doc(true))}}
	}
	follow.Note = "follow-up"
	if engine == "fault" {
		// after a failed operation the database is as before: the very same
		// operation, issued again without the fault, must behave as it does on a
		// database that never saw the failure
		again := target
		again.Note = "follow-up: the target again, fault-free"
		rf.Ops = append(rf.Ops, again)
	}
	rf.Ops = append(rf.Ops, follow)
	e.Finish()
	return runEnum(rf)
}

// enumOnce builds a fresh database, replays the prefix and runs target+follow with the plan.
func enumOnce(rf *RunFile, target int, fault, crash int, post bool, abandon int) (*Exec, error) {
	dir, err := scratchDir()
	if err != nil {
		return nil, err
	}
	defer os.RemoveAll(dir)
	be, err := MakeBackend(rf.Backend, dir)
	if err != nil {
		return nil, err
	}
	defer be.Destroy()
	e, err := NewExec(be, dir, rf.IDSeed, execOptFromCfg(rf.Cfg))
	if err != nil {
		return nil, err
	}
	defer e.Finish()
	for i := 0; i < len(rf.Ops); i++ {
		op := rf.Ops[i] // copy
		op.Fault, op.Crash, op.CrashPost, op.Abandon = 0, 0, false, 0
		if op.Note == "abandon-cb" {
			op.Note = ""
		}
		if i < target {
			// prefix: no oracle work needed beyond what Step does
		}
		if fault == 0 && crash == 0 && i > target && strings.HasPrefix(op.Note, "follow-up: the target again") {
			continue // the fault-free reference run has just executed the target
		}
		if i == target {
			op.Fault, op.Crash, op.CrashPost, op.Abandon = fault, crash, post, abandon
			if fault == 0 && crash == 0 && abandon == 0 {
				e.Ctl.Trace = true
				e.Ctl.Events = nil
			}
		}
		ok := e.Step(i, &op)
		if i == target && e.Ctl.Trace {
			e.Ctl.Trace = false
			e.targetKinds = nil
			for _, ev := range e.Ctl.Events {
				if ev.Kind.Faultable() {
					e.targetKinds = append(e.targetKinds, ev.Kind)
				}
			}
			e.Ctl.Events = nil
		}
		if !ok {
			break
		}
		if i == target {
			e.lastTargetFCalls = e.targetFCalls
			if fault > 0 && e.V == nil && !e.closed {
				// read-only look at the database through the same handle right after
				// the failure: counters, scans and indexes must agree
				e.opIdx = target + 1
				e.Audit()
				if e.V != nil {
					break
				}
			}
		}
		if i > target && e.V == nil && (fault > 0 || crash > 0 || abandon > 0) {
			// follow-up succeeded: liveness after the fault
			e.checked("follow-up-after-fault")
		}
	}
	if e.V == nil && !e.closed {
		e.cur = nil
		e.Audit()
	}
	if fault > 0 || abandon > 0 {
		e.opIdx = len(rf.Ops)
		e.closeAtEnd() // under the hang monitor: nothing the failed operation left behind may keep Close waiting
	}
	if e.V != nil && e.V.OpIdx > target && (fault > 0 || crash > 0 || abandon > 0) && e.V.Rule != "C20/panic" {
		// something went wrong AFTER the failed / crashed operation, on a database
		// which is fine without the fault: the failure left a trace in the handle
		if fault > 0 {
			if e.V.Rule == "unexpected-error" {
				e.V.Rule = "C04/wedged"
			} else {
				e.V.Rule = "C04/after-fault(" + e.V.Rule + ")"
			}
			e.V.Props = append([]string{"C04", "C05"}, e.V.Props...)
			e.V.Msg = "after an operation that failed because the store failed, the handle misbehaves: " + e.V.Msg
		} else if abandon > 0 {
			e.V.Rule = "C05/after-abandon(" + e.V.Rule + ")"
			e.V.Props = append([]string{"C05"}, e.V.Props...)
			e.V.Msg = "after an operation abandoned in mid-flight (its goroutine unwound before the commit), the handle misbehaves: " + e.V.Msg
		} else {
			e.V.Rule = "C05/after-crash(" + e.V.Rule + ")"
			e.V.Props = append([]string{"C05"}, e.V.Props...)
		}
	}
	return e, nil
}

func runEnum(rf *RunFile) *RunOutcome {
	out := &RunOutcome{RF: rf, Stats: NewStats()}
	target, _ := strconv.Atoi(rf.Cfg["target"])
	if target >= len(rf.Ops) {
		out.Trouble = fmt.Errorf("bad target index")
		return out
	}
	isCrash := rf.Engine == "crash"
	fam := "fault-enum"
	if isCrash {
		fam = "crash-enum"
	}
	// dry run: count positions
	e0, err := enumOnce(rf, target, 0, 0, false, 0)
	if err != nil {
		out.Trouble = err
		return out
	}
	out.Stats.Merge(e0.Stats)
	out.NOps = len(rf.Ops)
	if e0.V != nil {
		out.V = e0.V
		return out
	}
	n := e0.lastTargetFCalls
	type pos struct {
		k       int
		post    bool
		abandon bool
	}
	var positions []pos
	if ks := rf.Cfg["k"]; ks != "" {
		k, _ := strconv.Atoi(ks)
		positions = []pos{{k, rf.Cfg["post"] == "1", rf.Cfg["abandon"] == "1"}}
	} else {
		add := func(k int) {
			positions = append(positions, pos{k, false, false})
			if isCrash {
				positions = append(positions, pos{k, true, false})
				if abandonable[rf.Ops[target].K] {
					positions = append(positions, pos{k, false, true})
				}
			}
		}
		if n <= 150 {
			for k := 1; k <= n; k++ {
				add(k)
			}
		} else {
			// a very long operation: every begin/commit position, the first and last
			// calls, and a seeded sample of the rest
			out.Stats.Probes["enum-long-op-sampled"]++
			chosen := map[int]bool{}
			for k, kd := range e0.targetKinds {
				if kd == wrap.KCommit || kd == wrap.KBegin {
					chosen[k+1] = true
				}
			}
			for k := 1; k <= 4; k++ {
				chosen[k], chosen[n+1-k] = true, true
			}
			pr := rng.Derive(rf.Seed, rf.RunIdx, 0x5a)
			for len(chosen) < 50 {
				chosen[1+pr.Intn(n)] = true
			}
			ks := make([]int, 0, len(chosen))
			for k := range chosen {
				if k >= 1 && k <= n {
					ks = append(ks, k)
				}
			}
			sort.Ints(ks)
			for _, k := range ks {
				add(k)
			}
		}
	}
	out.Evals = 0
	for _, p := range positions {
		var e *Exec
		switch {
		case p.abandon:
			e, err = enumOnce(rf, target, 0, 0, false, p.k)
		case isCrash:
			e, err = enumOnce(rf, target, 0, p.k, p.post, 0)
		default:
			e, err = enumOnce(rf, target, p.k, 0, false, 0)
		}
		if err != nil {
			out.Trouble = err
			return out
		}
		out.Evals++
		out.Stats.Merge(e.Stats)
		out.Stats.Checks[fam]++
		if e.V != nil {
			rf.Cfg["k"] = strconv.Itoa(p.k)
			if p.post {
				rf.Cfg["post"] = "1"
			} else {
				delete(rf.Cfg, "post")
			}
			e.V.Features["targetOp"] = rf.Ops[target].K
			out.V = e.V
			return out
		}
	}
	if len(positions) > 0 {
		out.Stats.Probes["enum-positions-total"] += len(positions)
		out.Stats.Probes["enum-target-"+rf.Ops[target].K]++
	}
	return out
}
