package sim

import (
	"encoding/json"
	"fmt"
	"os"
	"runtime/debug"
	"sort"
	"strings"
	"time"

	"github.com/ostafen/clover/v2/document"
	"github.com/ostafen/clover/v2/query"

	"verif/sim/model"
	"verif/sim/val"
	"verif/sim/wrap"
)

func sortedUpdKeys(m map[string]interface{}) []string {
	ks := make([]string, 0, len(m))
	for k := range m {
		ks = append(ks, k)
	}
	sort.Strings(ks)
	return ks
}

// applyUpd is the model's Update semantics: copy, then set every path.
func applyUpd(d model.Doc, upd map[string]interface{}) model.Doc {
	nd := val.CloneMap(d)
	for _, k := range sortedUpdKeys(upd) {
		model.Set(nd, k, upd[k])
	}
	return nd
}

func invalidDoc(d model.Doc) bool {
	if !idAcceptable(d["_id"]) {
		return true
	}
	if x, ok := d["_expiresAt"]; ok {
		if _, isT := x.(time.Time); !isT {
			return true
		}
	}
	return false
}

// unencodable: the value holds a time whose zone offset the binary encoding of
// time.Time cannot express (a whole number of minutes equal to -1, or beyond 16
// bits). Storing it may be refused.
func unencodable(v interface{}) bool {
	switch x := v.(type) {
	case time.Time:
		_, off := x.Zone()
		q := off / 60
		return q == -1 || q < -32768 || q > 32767
	case map[string]interface{}:
		for _, e := range x {
			if unencodable(e) {
				return true
			}
		}
	case []interface{}:
		for _, e := range x {
			if unencodable(e) {
				return true
			}
		}
	}
	return false
}

func hasGivenID(d model.Doc) bool {
	v, ok := d["_id"]
	if !ok {
		return false
	}
	if s, isS := v.(string); isS && s == "" {
		return false
	}
	return true
}

// ---- Insert / InsertOne / Save ---------------------------------------------------------

func (e *Exec) stepInsert(op *Op, mc *model.Coll) {
	docs := op.docMaps()
	cdocs := make([]*document.Document, len(docs))
	for i, d := range docs {
		cdocs[i] = DocToClover(d)
	}
	sameA, sameB := -1, -1
	if strings.HasPrefix(op.Note, "sameobj:") {
		fmt.Sscanf(op.Note, "sameobj:%d:%d", &sameA, &sameB)
		if sameA >= 0 && sameB > sameA && sameB < len(cdocs) && !hasGivenID(docs[sameA]) {
			cdocs[sameB] = cdocs[sameA] // the very same object twice in the batch
			e.probe("same-document-object-twice-in-batch")
		} else {
			sameA, sameB = -1, -1
		}
	}
	what := op.Brief()

	// prediction
	want := ""
	isSaveReplace := op.K == "Save" && hasGivenID(docs[0])
	switch {
	case mc == nil:
		want = "ErrCollectionNotExist"
	case isSaveReplace:
		id, _ := docs[0]["_id"].(string)
		if _, live := mc.Docs[id]; !live {
			want = "any" // Save with an id routes to ReplaceById, which needs the document
		} else if invalidDoc(docs[0]) {
			want = "any"
		}
	default:
		dup, bad := false, false
		seen := map[string]bool{}
		for i, d := range docs {
			if !hasGivenID(d) {
				if x, ok := d["_expiresAt"]; ok {
					if _, isT := x.(time.Time); !isT {
						bad = true
					}
				}
				continue
			}
			if invalidDoc(d) {
				bad = true
				if i > 0 {
					e.probe("malformed-id-at-batch-position>0")
				}
				continue
			}
			id := d["_id"].(string)
			if _, live := mc.Docs[id]; live || seen[id] {
				dup = true
				if seen[id] {
					e.probe("duplicate-id-within-batch")
				}
				if i > 0 {
					e.probe("duplicate-id-at-batch-position>0")
				}
			}
			seen[id] = true
		}
		if sameB >= 0 {
			dup = true // the second occurrence carries the _id assigned to the first
		}
		switch {
		case dup && bad:
			want = "any"
		case dup:
			want = "ErrDuplicateKey"
		case bad:
			want = "any"
		}
	}
	for _, d := range docs {
		if unencodable(map[string]interface{}(d)) {
			e.probe("unencodable-value")
			switch want {
			case "":
				want = "maybe"
			case "ErrDuplicateKey":
				want = "any" // which of the two reasons is reported is not specified
			}
		}
	}

	before := e.snap(want != "" || op.Fault > 0)
	var retID string
	err := e.invoke(true, func() error {
		switch op.K {
		case "InsertOne":
			var er error
			retID, er = e.DB.InsertOne(op.Coll, cdocs[0])
			return er
		case "Save":
			if op.AsStruct {
				return e.DB.Save(op.Coll, cdocs[0])
			}
			return e.DB.Save(op.Coll, val.CloneMap(docs[0]))
		}
		return e.DB.Insert(op.Coll, cdocs...)
	})

	apply := func() bool {
		if isSaveReplace {
			id := docs[0]["_id"].(string)
			mc.Docs[id] = val.CloneMap(docs[0])
			e.noteIDs(id)
			return true
		}
		// learn ids
		ids := make([]string, len(docs))
		if op.K == "Save" && !op.AsStruct {
			// the document object is internal to clover: find the new id
			got, _, rerr := e.readColl(op.Coll)
			if rerr != nil {
				e.fail([]string{"C01", "C11"}, "C01/readback-error", fmt.Sprintf("after %s: %v", what, rerr), nil)
				return false
			}
			var fresh []string
			for id := range got {
				if _, ok := mc.Docs[id]; !ok {
					fresh = append(fresh, id)
				}
			}
			if len(fresh) != 1 {
				e.fail([]string{"C12", "C01"}, "C12/save-new", fmt.Sprintf("%s succeeded; expected exactly one new document, found %d", what, len(fresh)), nil)
				return false
			}
			ids[0] = fresh[0]
		} else {
			for i, cd := range cdocs {
				ids[i] = cd.ObjectId()
			}
		}
		e.checked("ids")
		for i, d := range docs {
			if hasGivenID(d) {
				if ids[i] != d["_id"].(string) {
					e.fail([]string{"C12"}, "C12/supplied-id-changed", fmt.Sprintf("%s: supplied _id %v became %q", what, d["_id"], ids[i]), nil)
					return false
				}
			} else {
				e.probe("generated-id")
				if !idValid(ids[i]) {
					e.fail([]string{"C12"}, "C12/generated-id-invalid", fmt.Sprintf("%s: generated _id %q is not a canonical UUID", what, ids[i]), nil)
					return false
				}
				if _, used := e.usedIDs[ids[i]]; used {
					e.fail([]string{"C12"}, "C12/generated-id-not-fresh", fmt.Sprintf("%s: generated _id %q was already used", what, ids[i]), nil)
					return false
				}
			}
			nd := val.CloneMap(d)
			nd["_id"] = ids[i]
			mc.Docs[ids[i]] = nd
			e.noteIDs(ids[i])
		}
		if op.K == "InsertOne" && !e.inCrashSettle && retID != ids[0] {
			e.fail([]string{"C12"}, "C12/insertone-id", fmt.Sprintf("InsertOne returned %q but the document's _id is %q", retID, ids[0]), nil)
			return false
		}
		return true
	}

	switch e.judge(err, want, []string{"C01", "C12"}, what) {
	case outOK:
		if len(mc.Indexes) > 0 {
			e.probe("insert-into-indexed")
		}
		if apply() {
			e.afterWrite(op.Coll, []string{"C01", "C12"}, what)
		}
	case outFailed, outCapacity:
		e.noEffect(before, what, []string{"C12"})
	case outCrashed:
		e.settleCrash(op, func() { apply() })
	}
}

// ---- UpdateById / ReplaceById -------------------------------------------------------------

// cloverUpdater builds the callback handed to UpdateById/UpdateFunc.
type updRecord struct {
	id  string
	doc model.Doc
}

func makeUpdater(op *Op, rec *[]updRecord) func(*document.Document) *document.Document {
	upd := op.updMap()
	if op.Note == "narrow" {
		for k, v := range upd {
			upd[k] = Narrow(v) // the caller passes ints, float32s ...: normalisation is clover's business
		}
	}
	keys := sortedUpdKeys(upd)
	calls := 0
	return func(d *document.Document) *document.Document {
		calls++
		if op.Note == "abandon-cb" && calls == op.Abandon {
			panic(wrap.AbandonSignal{}) // the caller's update function panics, the caller recovers
		}
		*rec = append(*rec, updRecord{d.ObjectId(), val.CloneMap(DocFromClover(d))})
		switch op.UpdStyle {
		case "nil":
			return nil
		case "copy":
			c := d.Copy()
			for _, k := range keys {
				c.Set(k, val.Clone(upd[k]))
			}
			return c
		case "fresh":
			m := d.AsMap()
			nd := document.NewDocumentOf(m)
			for _, k := range keys {
				nd.Set(k, val.Clone(upd[k]))
			}
			return nd
		default: // inplace
			for _, k := range keys {
				d.Set(k, val.Clone(upd[k]))
			}
			return d
		}
	}
}

func (e *Exec) stepUpdateById(op *Op, mc *model.Coll) {
	what := op.Brief()
	var newDoc model.Doc
	want := ""
	idRewrite := false
	var old model.Doc
	if mc != nil {
		old = mc.Docs[op.ID]
	}
	if op.K == "UpdateById" && op.UpdStyle == "nil" && old != nil {
		// an update function that returns nil: refused without effect, or the document is
		// removed, or it is left as it was - and whichever it is, counts and indexes follow
		before := e.snap(true)
		var rec []updRecord
		err := e.invoke(true, func() error { return e.DB.UpdateById(op.Coll, op.ID, makeUpdater(op, &rec)) })
		switch e.judge(err, "maybe", []string{"C01", "C12"}, what) {
		case outOK:
			e.probe("update-function-returns-nil")
			if len(rec) != 1 {
				e.fail([]string{"C03", "C12"}, "C03/callback-count", fmt.Sprintf("%s: updater ran %d times", what, len(rec)), nil)
				return
			}
			got, _, rerr := e.readColl(op.Coll)
			if e.V != nil {
				return
			}
			if rerr != nil {
				e.fail([]string{"C01", "C11"}, "C01/readback-error", fmt.Sprintf("after %s: %v", what, rerr), nil)
				return
			}
			if g, ok := got[op.ID]; !ok {
				delete(mc.Docs, op.ID)
			} else if !val.Equal(g, old) {
				e.fail([]string{"C01", "C03"}, "C03/touched-unmatched", fmt.Sprintf("after %s: %s", what, describeDocDiff(op.ID, old, g)), nil)
				return
			}
			e.afterWrite(op.Coll, []string{"C01", "C12"}, what)
		case outFailed, outCapacity:
			e.noEffect(before, what, nil)
		case outCrashed:
			e.settleCrash(op, func() { delete(mc.Docs, op.ID) })
		}
		return
	}
	if op.K == "ReplaceById" {
		newDoc = op.docMaps()[0]
		nid, _ := newDoc["_id"].(string)
		switch {
		case nid != op.ID:
			want = "any"
			e.probe("replace-id-mismatch")
		case mc == nil:
			want = "ErrCollectionNotExist"
		case old == nil:
			want = "ErrDocumentNotExist"
		case invalidDoc(newDoc):
			want = "any"
		case unencodable(map[string]interface{}(newDoc)):
			want = "maybe"
		}
	} else {
		switch {
		case mc == nil:
			want = "ErrCollectionNotExist"
		case old == nil:
			want = "ErrDocumentNotExist"
		default:
			newDoc = applyUpd(old, op.updMap())
			if invalidDoc(newDoc) {
				want = "any"
				e.probe("update-produces-invalid-doc")
			} else if newDoc["_id"] != op.ID {
				idRewrite = true
				e.probe("update-attempts-id-rewrite")
			} else if unencodable(map[string]interface{}(newDoc)) {
				want = "maybe"
				e.probe("unencodable-value")
			}
		}
	}
	before := e.snap(want != "" || idRewrite || op.Fault > 0)
	var rec []updRecord
	err := e.invoke(true, func() error {
		if op.K == "ReplaceById" {
			return e.DB.ReplaceById(op.Coll, op.ID, DocToClover(newDoc))
		}
		return e.DB.UpdateById(op.Coll, op.ID, makeUpdater(op, &rec))
	})
	if idRewrite && !e.Ctl.FaultFired && err != errCrashed && e.V == nil {
		// either rejected without effect, or applied with _id left unchanged
		if err != nil {
			e.noEffect(before, what, []string{"C12"})
			return
		}
		newDoc["_id"] = op.ID
	}
	apply := func() { mc.Docs[op.ID] = newDoc }
	switch e.judge(err, want, []string{"C01", "C12"}, what) {
	case outOK:
		if op.K == "UpdateById" {
			e.checked("callback")
			if len(rec) != 1 {
				e.fail([]string{"C03", "C12"}, "C03/callback-count", fmt.Sprintf("%s: updater ran %d times", what, len(rec)), nil)
				return
			}
			if !val.Equal(rec[0].doc, old) {
				e.fail([]string{"C11", "C01"}, "C01/stale-value", fmt.Sprintf("%s: updater received %s, the stored document is %s", what, val.String(rec[0].doc), val.String(old)), nil)
				return
			}
		}
		if len(mc.Indexes) > 0 {
			e.probe("point-update-on-indexed")
			for f := range mc.Indexes {
				if val.Compare(model.Get(old, f), model.Get(newDoc, f)) != 0 {
					e.probe("point-update-changes-indexed-value")
				}
			}
		}
		apply()
		e.afterWrite(op.Coll, []string{"C01", "C12"}, what)
		if e.V == nil {
			// key / _id agreement
			var doc *document.Document
			ferr := e.invoke(false, func() error {
				var er error
				doc, er = e.DB.FindById(op.Coll, op.ID)
				return er
			})
			if ferr == nil && e.V == nil {
				e.checkFindById(op.Coll, op.ID, doc)
			}
		}
	case outFailed, outCapacity:
		e.noEffect(before, what, []string{"C12"})
	case outCrashed:
		e.settleCrash(op, apply)
	}
}

// ---- bulk Update / UpdateFunc / Delete -----------------------------------------------------

func critFields(c *model.Crit) map[string]bool {
	out := map[string]bool{}
	c.Walk(func(n *model.Crit) {
		if n.F != "" {
			out[n.F] = true
		}
	})
	return out
}

func (e *Exec) stepBulk(op *Op, mc *model.Coll) {
	what := op.Brief()
	q := op.Q
	if mc == nil {
		before := e.snap(true)
		var rec []updRecord
		err := e.invokeBulk(op, &rec)
		if o := e.judge(err, "ErrCollectionNotExist", []string{"C13"}, what); o == outFailed {
			e.noEffect(before, what, []string{"C13"})
		}
		return
	}
	feats := e.queryFeatures(q)
	props := idxProps([]string{"C03", "C01"}, feats)
	if op.K == "UpdateFunc" && op.UpdStyle == "nil" {
		e.stepBulkNil(op, mc, props, feats)
		return
	}
	for k := range op.Upd {
		if k == "_id" || strings.HasPrefix(k, "_id.") {
			props = append(props, "C12") // an update aimed at _id: whatever goes wrong also concerns key/_id agreement
		}
	}
	matching := mc.Matching(q.Crit)
	sortOpts := q.EffSort()
	skip, limit := q.EffSkip(), q.EffLimit()
	windowed := skip > 0 || limit >= 0
	wantN := model.WindowSize(len(matching), skip, limit)
	upd := op.updMap()

	// expected affected set when it is determined by the statement
	var detA []string
	deterministic := true
	var windowClasses, windowClasses2 []string
	switch {
	case !windowed || wantN == len(matching):
		detA = matching
	case wantN == 0:
		detA = nil
	case len(sortOpts) == 0:
		deterministic = false
	default:
		s1 := model.SortedTuples(mc, matching, sortOpts, false)
		s2 := model.SortedTuples(mc, matching, sortOpts, true)
		windowClasses = model.Window(s1, skip, limit)
		windowClasses2 = model.Window(s2, skip, limit)
		lo, hi := skip, skip+wantN // [lo,hi)
		cut := (lo > 0 && s1[lo-1] == s1[lo]) || (hi < len(s1) && s1[hi-1] == s1[hi])
		if cut || strings.Join(s1, "\x00") != strings.Join(s2, "\x00") {
			deterministic = false
			e.probe("bulk-window-straddles-ties")
		} else {
			// ids whose class lies in the window: sort ids by tuple (stable), take positions
			type it struct {
				id string
				t  model.KeyTuple
			}
			items := make([]it, len(matching))
			for i, id := range matching {
				items[i] = it{id, model.TupleOf(mc.Docs[id], sortOpts)}
			}
			sort.SliceStable(items, func(i, j int) bool { return model.CmpTuples(items[i].t, items[j].t, sortOpts, false) < 0 })
			for _, x := range items[lo:hi] {
				detA = append(detA, x.id)
			}
		}
	}

	// will the update produce an invalid document / rewrite _id ?
	isDelete := op.K == "Delete"
	invalid, idRewrite := false, false
	if !isDelete && wantN > 0 {
		probeDoc := applyUpd(mc.Docs[matching[0]], upd)
		touchesID := false
		for k := range upd {
			if k == "_id" || strings.HasPrefix(k, "_id.") {
				touchesID = true
			}
		}
		if touchesID {
			if invalidDoc(probeDoc) {
				invalid = true
			} else {
				idRewrite = true
				e.probe("update-attempts-id-rewrite")
			}
		}
		if x, ok := probeDoc["_expiresAt"]; ok {
			if _, isT := x.(time.Time); !isT {
				invalid = true
			}
		}
		if invalid {
			e.probe("update-produces-invalid-doc")
		}
	}
	want := ""
	if invalid {
		want = "any"
	}

	// probes
	if len(mc.Indexes) > 0 && wantN > 0 {
		e.probe("bulk-on-indexed")
	}
	if !isDelete {
		cf := critFields(q.Crit)
		for k := range upd {
			if cf[k] {
				e.probe("bulk-rewrites-filter-field")
			}
			for _, so := range sortOpts {
				if so.Field == k {
					e.probe("bulk-rewrites-sort-field")
				}
			}
			if mc.Indexes[k] {
				e.probe("bulk-rewrites-indexed-field")
			}
		}
	}
	if len(mc.Docs) > 1000 {
		e.probe("bulk-over-1000-docs")
	}
	if windowed && len(sortOpts) > 0 {
		e.probe("bulk-with-sort-and-window")
	}

	before := e.snap(want != "" || idRewrite || op.Fault > 0)
	var rec []updRecord
	err := e.invokeBulk(op, &rec)

	if idRewrite && !e.Ctl.FaultFired && err != errCrashed && e.V == nil {
		if err != nil {
			e.noEffect(before, what, []string{"C12"})
			return
		}
		delete(upd, "_id") // accepted reading: applied with _id left unchanged
	}

	settle := func() {
		e.checked("bulk")
		got, _, rerr := e.readColl(q.Coll)
		if e.V != nil {
			return
		}
		if rerr != nil {
			e.fail(append(append([]string{}, props...), "C11"), "C01/readback-error", fmt.Sprintf("after %s: %v", what, rerr), feats)
			return
		}
		A := detA
		_, tagged := upd["tag"]
		if !deterministic && !isDelete && !tagged {
			// the update may leave a document unchanged, so the affected set cannot be
			// read off the outcome: every changed document must be a matching one
			// carrying the update, and at most wantN may have changed
			nChanged := 0
			matchSet := map[string]bool{}
			for _, id := range matching {
				matchSet[id] = true
			}
			for _, id := range mc.IDs() {
				g, ok := got[id]
				if !ok {
					e.fail(props, "C03/lost-document", fmt.Sprintf("after %s: document %s disappeared", what, id), feats)
					return
				}
				if val.Equal(g, mc.Docs[id]) {
					continue
				}
				nChanged++
				if !matchSet[id] || !val.Equal(g, applyUpd(mc.Docs[id], upd)) {
					e.fail(props, "C03/touched-unmatched", fmt.Sprintf("after %s: %s", what, describeDocDiff(id, mc.Docs[id], g)), feats)
					return
				}
				mc.Docs[id] = g
			}
			if nChanged > wantN || len(got) != len(mc.Docs) {
				e.fail(props, "C03/window-size", fmt.Sprintf("%s: at most %d documents may change, %d did", what, wantN, nChanged), feats)
			}
			return
		}
		if !deterministic {
			// derive the affected set from the outcome and validate it
			A = nil
			for _, id := range mc.IDs() {
				g, ok := got[id]
				if isDelete {
					if !ok {
						A = append(A, id)
					}
				} else if ok && !val.Equal(g, mc.Docs[id]) {
					A = append(A, id)
				}
			}
			matchSet := map[string]bool{}
			for _, id := range matching {
				matchSet[id] = true
			}
			for _, id := range A {
				if !matchSet[id] {
					e.fail(props, "C03/touched-unmatched", fmt.Sprintf("%s changed document %s which does not match the query", what, val.String(mc.Docs[id])), feats)
					return
				}
			}
			if len(A) != wantN {
				e.fail(append(props, "C08"), "C03/window-size", fmt.Sprintf("%s: %d documents match, skip=%d limit=%d must affect %d, affected %d", what, len(matching), skip, limit, wantN, len(A)), feats)
				return
			}
			if len(sortOpts) > 0 {
				cls := make([]string, len(A))
				for i, id := range A {
					cls[i] = model.TupleClassKey(model.TupleOf(mc.Docs[id], sortOpts))
				}
				wc := append([]string{}, windowClasses...)
				wc2 := append([]string{}, windowClasses2...)
				sort.Strings(cls)
				sort.Strings(wc)
				sort.Strings(wc2)
				if strings.Join(cls, "\x00") != strings.Join(wc, "\x00") && strings.Join(cls, "\x00") != strings.Join(wc2, "\x00") {
					e.fail(append(props, "C08"), "C03/window-keys", fmt.Sprintf("%s: affected sort keys %v are not the window's %v", what, clip(cls), clip(wc)), feats)
					return
				}
			}
		}
		// callbacks (UpdateFunc): once per affected id, on the pre-call value
		if op.K == "UpdateFunc" {
			e.checked("callback")
			cnt := map[string]int{}
			for _, r := range rec {
				cnt[r.id]++
				if pre, ok := mc.Docs[r.id]; ok && cnt[r.id] == 1 && !val.Equal(pre, r.doc) {
					if onlyTyping(pre, r.doc) {
						e.fail([]string{"C11"}, "C11/type-or-zone", fmt.Sprintf("%s: callback received %s, stored %s", what, val.String(r.doc), val.String(pre)), feats)
					} else {
						e.fail(props, "C03/callback-value", fmt.Sprintf("%s: callback received %s instead of the pre-call value %s", what, val.String(r.doc), val.String(pre)), feats)
					}
					return
				}
			}
			inA := map[string]bool{}
			for _, id := range A {
				inA[id] = true
				if cnt[id] != 1 {
					e.fail(props, "C03/callback-count", fmt.Sprintf("%s: the update function ran %d times on matched document %s", what, cnt[id], id), feats)
					return
				}
			}
			cntIDs := make([]string, 0, len(cnt))
			for id := range cnt {
				cntIDs = append(cntIDs, id)
			}
			sort.Strings(cntIDs)
			for _, id := range cntIDs {
				n := cnt[id]
				if !inA[id] {
					e.fail(props, "C03/callback-count", fmt.Sprintf("%s: the update function ran %d times on document %s outside the affected set", what, n, id), feats)
					return
				}
			}
		}
		// adopt
		for _, id := range A {
			if isDelete {
				delete(mc.Docs, id)
			} else {
				mc.Docs[id] = applyUpd(mc.Docs[id], upd)
			}
		}
		if len(A) > 0 {
			e.probe("bulk-affected>0")
		}
		// final comparison (got vs adopted model)
		for _, id := range mc.IDs() {
			g, ok := got[id]
			if !ok {
				e.fail(props, "C03/lost-document", fmt.Sprintf("after %s: document %s disappeared", what, id), feats)
				return
			}
			if !val.Equal(g, mc.Docs[id]) {
				if onlyTyping(mc.Docs[id], g) {
					// the stored value has another Go type than the one written: a typing
					// violation, and for a matched document also an update that did not happen
					e.fail(append([]string{"C11"}, props...), "C11/type-or-zone", fmt.Sprintf("after %s: %s", what, describeDocDiff(id, mc.Docs[id], g)), feats)
				} else {
					rule := "C03/matched-not-updated"
					inA := false
					for _, a := range A {
						if a == id {
							inA = true
						}
					}
					if !inA {
						rule = "C03/touched-unmatched"
					}
					e.fail(props, rule, fmt.Sprintf("after %s: %s", what, describeDocDiff(id, mc.Docs[id], g)), feats)
				}
				return
			}
		}
		for id := range got {
			if _, ok := mc.Docs[id]; !ok {
				e.fail(props, "C03/matched-not-removed", fmt.Sprintf("after %s: document %s is still there (or appeared): %s", what, id, val.String(got[id])), feats)
				return
			}
		}
		if e.Opt.FullCompare {
			e.compareAll(q.Coll, props, what)
		}
	}

	switch e.judge(err, want, props, what) {
	case outOK:
		settle()
	case outFailed, outCapacity:
		e.noEffect(before, what, nil)
	case outCrashed:
		e.settleCrashBulk(op, settle)
	}
}

// stepBulkNil: an update function that returns nil for every document. The
// shipped code removes such a document; the properties do not say so, therefore
// the oracle accepts, per matched document, "removed" or "left as it was" (and a
// refusal of the whole call without effect) and demands what they do say: the
// function runs once per matched document on its pre-call value, no other
// document is touched, and counts and indexes agree with what is stored afterwards.
func (e *Exec) stepBulkNil(op *Op, mc *model.Coll, props []string, feats map[string]string) {
	what := op.Brief()
	q := op.Q
	matching := mc.Matching(q.Crit)
	before := e.snap(true)
	var rec []updRecord
	err := e.invokeBulk(op, &rec)
	switch e.judge(err, "maybe", props, what) {
	case outOK:
		e.probe("update-function-returns-nil")
		got, _, rerr := e.readColl(q.Coll)
		if e.V != nil {
			return
		}
		if rerr != nil {
			e.fail(append(append([]string{}, props...), "C11"), "C01/readback-error", fmt.Sprintf("after %s: %v", what, rerr), feats)
			return
		}
		matched := map[string]bool{}
		for _, id := range matching {
			matched[id] = true
		}
		cnt := map[string]int{}
		for _, r := range rec {
			cnt[r.id]++
			if pre, ok := mc.Docs[r.id]; ok && cnt[r.id] == 1 && !val.Equal(pre, r.doc) {
				e.fail(props, "C03/callback-value", fmt.Sprintf("%s: callback received %s instead of the pre-call value %s", what, val.String(r.doc), val.String(pre)), feats)
				return
			}
		}
		ids := make([]string, 0, len(cnt))
		for id := range cnt {
			ids = append(ids, id)
		}
		sort.Strings(ids)
		for _, id := range ids {
			if !matched[id] {
				e.fail(props, "C03/callback-count", fmt.Sprintf("%s: the update function ran on document %s which does not match", what, id), feats)
				return
			}
		}
		for _, id := range matching {
			if cnt[id] != 1 {
				e.fail(props, "C03/callback-count", fmt.Sprintf("%s: the update function ran %d times on matched document %s", what, cnt[id], id), feats)
				return
			}
		}
		for _, id := range mc.IDs() {
			g, ok := got[id]
			switch {
			case !ok && matched[id]:
				delete(mc.Docs, id)
			case !ok:
				e.fail(props, "C03/lost-document", fmt.Sprintf("after %s: unmatched document %s disappeared", what, id), feats)
				return
			case !val.Equal(g, mc.Docs[id]):
				e.fail(props, "C03/touched-unmatched", fmt.Sprintf("after %s: %s", what, describeDocDiff(id, mc.Docs[id], g)), feats)
				return
			}
		}
		for id := range got {
			if _, ok := mc.Docs[id]; !ok {
				e.fail(props, "C03/matched-not-removed", fmt.Sprintf("after %s: document %s appeared", what, id), feats)
				return
			}
		}
		e.afterWrite(q.Coll, props, what)
	case outFailed, outCapacity:
		e.noEffect(before, what, nil)
	case outCrashed:
		// entirely absent, or entirely present in the shipped meaning of nil (removed)
		e.settleCrash(op, func() {
			for _, id := range matching {
				delete(mc.Docs, id)
			}
		})
	}
}

func (e *Exec) invokeBulk(op *Op, rec *[]updRecord) error {
	cq := QueryToClover(op.Q)
	return e.invoke(true, func() error {
		switch op.K {
		case "Delete":
			return e.DB.Delete(cq)
		case "UpdateFunc":
			return e.DB.UpdateFunc(cq, makeUpdater(op, rec))
		}
		um := op.updMap()
		if op.Note == "narrow" {
			for k, v := range um {
				um[k] = Narrow(v)
			}
		}
		return e.DB.Update(cq, um)
	})
}

// settleCrashBulk: pre-state or a valid post-state.
func (e *Exec) settleCrashBulk(op *Op, settle func()) {
	e.settleCrash(op, func() {
		// compute the post-state through the same settle logic (it reads the
		// restarted database and adopts); callback checks are skipped because the
		// callback records belong to the crashed execution
		saved := op.K
		if op.K == "UpdateFunc" {
			op.K = "Update"
		}
		settle()
		op.K = saved
	})
}

// ---- derived reads -----------------------------------------------------------------------------

type qSnapshot struct {
	coll        string
	limit, skip int
	sort        []query.SortOption
	crit        string
}

func critDump(c query.Criteria) string {
	switch x := c.(type) {
	case nil:
		return "nil"
	case *query.UnaryCriteria:
		v := ""
		switch y := x.Value.(type) {
		case func(*document.Document) bool:
			v = "func"
		default:
			v = fmt.Sprintf("%T:%v", y, y)
		}
		return fmt.Sprintf("U(%d,%q,%s)", x.OpType, x.Field, v)
	case *query.BinaryCriteria:
		return fmt.Sprintf("B(%d,%s,%s)", x.OpType, critDump(x.C1), critDump(x.C2))
	case *query.NotCriteria:
		return fmt.Sprintf("N(%s)", critDump(x.C))
	}
	return fmt.Sprintf("?%T", c)
}

func snapQuery(q *query.Query) qSnapshot {
	return qSnapshot{q.Collection(), q.GetLimit(), q.GetSkip(), append([]query.SortOption(nil), q.SortOptions()...), critDump(q.Criteria())}
}

func (a qSnapshot) equal(b qSnapshot) bool {
	if a.coll != b.coll || a.limit != b.limit || a.skip != b.skip || a.crit != b.crit || len(a.sort) != len(b.sort) {
		return false
	}
	for i := range a.sort {
		if a.sort[i] != b.sort[i] {
			return false
		}
	}
	return true
}

func (e *Exec) stepDerived(op *Op, mc *model.Coll) {
	what := op.Brief()
	q := op.Q
	cq := QueryToClover(q)
	snap0 := snapQuery(cq)
	raw0 := e.snap(false)

	exerciseBuilders := func() {
		_ = cq.Skip(3)
		_ = cq.Skip(-1)
		_ = cq.Limit(2)
		_ = cq.Sort(query.SortOption{Field: "zz", Direction: -1})
		_ = cq.Sort()
		_ = cq.Where(query.Field("zz").Eq(1))
		_ = cq.MatchFunc(func(*document.Document) bool { return true })
		if c := cq.Criteria(); c != nil {
			_ = c.Not()
			_ = c.And(query.Field("zz").Gt(1))
			_ = c.Or(query.Field("zz").Lt(1))
		}
	}
	checkUnchanged := func(after string) bool {
		e.checked("query-immutable")
		if !snapQuery(cq).equal(snap0) {
			e.fail([]string{"C09", "C07"}, "C09/query-mutated", fmt.Sprintf("%s: the query object changed after %s: before %+v, after %+v", what, after, snap0, snapQuery(cq)), nil)
			return false
		}
		return true
	}
	readOnly := func(name string) bool {
		e.checked("read-is-readonly")
		if e.Ctl.WriteCommits > 0 {
			e.fail([]string{"C09"}, "C09/read-wrote", fmt.Sprintf("%s: %s committed a transaction with %d store writes", what, name, e.Ctl.Writes), nil)
			return false
		}
		if raw0.ok && !raw0.same(e.snap(false)) {
			e.fail([]string{"C09"}, "C09/read-wrote", fmt.Sprintf("%s: %s changed the stored state", what, name), nil)
			return false
		}
		return true
	}

	if mc == nil {
		// every derived call must fail with the sentinel
		var err error
		err = e.invoke(true, func() error { _, er := e.DB.Count(cq); return er })
		if e.judge(err, "ErrCollectionNotExist", []string{"C13"}, "Count on "+what) != outFailed {
			return
		}
		err = e.invoke(false, func() error { _, er := e.DB.Exists(cq); return er })
		if e.judge(err, "ErrCollectionNotExist", []string{"C13"}, "Exists on "+what) != outFailed {
			return
		}
		err = e.invoke(false, func() error { _, er := e.DB.FindFirst(cq); return er })
		if e.judge(err, "ErrCollectionNotExist", []string{"C13"}, "FindFirst on "+what) != outFailed {
			return
		}
		err = e.invoke(false, func() error { return e.DB.ForEach(cq, func(*document.Document) bool { return true }) })
		e.judge(err, "ErrCollectionNotExist", []string{"C13"}, "ForEach on "+what)
		return
	}

	feats := e.queryFeatures(q)
	// base: FindAll
	var base []*document.Document
	err := e.invoke(true, func() error {
		var er error
		base, er = e.DB.FindAll(cq)
		return er
	})
	if e.judge(err, "", idxProps([]string{"C01"}, feats), what) != outOK {
		return
	}
	if !readOnly("FindAll") || !checkUnchanged("FindAll") {
		return
	}
	e.checkFindAll(q, base)
	if e.V != nil {
		return
	}
	baseIDs := make([]string, len(base))
	for i, d := range base {
		baseIDs[i] = d.ObjectId()
	}
	exerciseBuilders()
	if !checkUnchanged("builder calls") {
		return
	}

	// Count
	var n int
	err = e.invoke(false, func() error {
		var er error
		n, er = e.DB.Count(cq)
		return er
	})
	if e.judge(err, "", []string{"C09"}, "Count on "+what) != outOK {
		return
	}
	e.checked("count")
	if n != len(base) {
		f2 := feats
		if q.Crit == nil {
			f2["countShortcut"] = "1"
		}
		e.fail([]string{"C09", "C06"}, "C09/count", fmt.Sprintf("Count(%s) = %d but FindAll returns %d documents", what, n, len(base)), f2)
		return
	}
	if q.Crit == nil {
		e.probe("count-via-counter")
	}
	if !readOnly("Count") || !checkUnchanged("Count") {
		return
	}

	if q.EffLimit() != 0 {
		// Exists
		var ex bool
		err = e.invoke(false, func() error {
			var er error
			ex, er = e.DB.Exists(cq)
			return er
		})
		if e.judge(err, "", []string{"C09"}, "Exists on "+what) != outOK {
			return
		}
		e.checked("exists")
		if ex != (len(base) > 0) {
			e.fail([]string{"C09"}, "C09/exists", fmt.Sprintf("Exists(%s) = %v but FindAll returns %d documents", what, ex, len(base)), feats)
			return
		}
		if !readOnly("Exists") || !checkUnchanged("Exists") {
			return
		}
		// FindFirst
		var first *document.Document
		err = e.invoke(false, func() error {
			var er error
			first, er = e.DB.FindFirst(cq)
			return er
		})
		if e.judge(err, "", []string{"C09"}, "FindFirst on "+what) != outOK {
			return
		}
		e.checked("findfirst")
		switch {
		case len(base) == 0 && first != nil:
			e.fail([]string{"C09"}, "C09/findfirst", fmt.Sprintf("FindFirst(%s) returned a document but FindAll is empty", what), feats)
			return
		case len(base) > 0 && first == nil:
			e.fail([]string{"C09"}, "C09/findfirst", fmt.Sprintf("FindFirst(%s) = nil but FindAll returns %d documents", what, len(base)), feats)
			return
		case len(base) > 0 && first.ObjectId() != baseIDs[0]:
			// the statement is literal: FindFirst(q) is the first element of FindAll(q), on the same state
			e.fail([]string{"C09"}, "C09/findfirst", fmt.Sprintf("FindFirst(%s) returned %s but FindAll's first element is %s", what, first.ObjectId(), baseIDs[0]), feats)
			return
		}
		if !readOnly("FindFirst") || !checkUnchanged("FindFirst") {
			return
		}
	}

	// ForEach, full
	var visited []string
	err = e.invoke(false, func() error {
		return e.DB.ForEach(cq, func(d *document.Document) bool {
			visited = append(visited, d.ObjectId())
			return true
		})
	})
	if e.judge(err, "", []string{"C09"}, "ForEach on "+what) != outOK {
		return
	}
	e.checked("foreach")
	if strings.Join(visited, ",") != strings.Join(baseIDs, ",") {
		e.fail([]string{"C09"}, "C09/foreach-sequence", fmt.Sprintf("ForEach(%s) visited %d documents %v, FindAll returned %d %v", what, len(visited), clip(visited), len(baseIDs), clip(baseIDs)), feats)
		return
	}
	if !readOnly("ForEach") || !checkUnchanged("ForEach") {
		return
	}
	// ForEach with early stop
	if op.StopAfter > 0 {
		calls := 0
		var got []string
		err = e.invoke(false, func() error {
			return e.DB.ForEach(cq, func(d *document.Document) bool {
				calls++
				got = append(got, d.ObjectId())
				if calls >= op.StopAfter {
					e.Ctl.StopRequested = true
					return false
				}
				return true
			})
		})
		if e.judge(err, "", []string{"C09"}, "ForEach(stop) on "+what) != outOK {
			return
		}
		e.checked("foreach-stop")
		wantCalls := op.StopAfter
		if len(base) < wantCalls {
			wantCalls = len(base)
		}
		if wantCalls == op.StopAfter && len(base) > op.StopAfter {
			e.probe("foreach-stopped-early")
			if len(q.EffSort()) > 0 && feats["idxOnSort"] != "1" {
				e.probe("foreach-stopped-early-under-sort-node")
			}
		}
		if calls != wantCalls {
			sf := map[string]string{}
			for k, v := range feats {
				sf[k] = v
			}
			if len(q.EffSort()) > 0 {
				sf["sorted"] = "1"
			}
			e.fail([]string{"C09"}, "C09/foreach-stop", fmt.Sprintf("ForEach(%s): consumer returned false at call %d, yet it was called %d times (result has %d documents)", what, op.StopAfter, calls, len(base)), sf)
			return
		}
		if strings.Join(got, ",") != strings.Join(baseIDs[:wantCalls], ",") {
			e.fail([]string{"C09"}, "C09/foreach-sequence", fmt.Sprintf("ForEach(%s) with early stop visited %v, expected prefix %v", what, clip(got), clip(baseIDs[:wantCalls])), feats)
			return
		}
		if !checkUnchanged("ForEach(stop)") {
			return
		}
	}
	// FindById over live, deleted and never-existing ids
	probeIDs := []string{}
	for _, id := range mc.IDs() {
		probeIDs = append(probeIDs, id)
		if len(probeIDs) >= 3 {
			break
		}
	}
	dead := 0
	used := make([]string, 0, len(e.usedIDs))
	for id := range e.usedIDs {
		used = append(used, id)
	}
	sort.Strings(used)
	for _, id := range used {
		if _, live := mc.Docs[id]; !live && dead < 3 {
			probeIDs = append(probeIDs, id)
			dead++
		}
	}
	probeIDs = append(probeIDs, "00000000-0000-4000-8000-000000000000")
	for _, id := range probeIDs {
		var doc *document.Document
		err = e.invoke(false, func() error {
			var er error
			doc, er = e.DB.FindById(q.Coll, id)
			return er
		})
		if e.judge(err, "", []string{"C09"}, "FindById") != outOK {
			return
		}
		e.checkFindById(q.Coll, id, doc)
		if e.V != nil || !readOnly("FindById") {
			return
		}
	}
}

// ---- export / import / create-by-query ------------------------------------------------------------

// jsonTyped maps a value to what it becomes after a JSON round trip.
func jsonTyped(v interface{}) interface{} {
	switch x := v.(type) {
	case int64:
		return float64(x)
	case uint64:
		return float64(x)
	case time.Time:
		return x.Format(time.RFC3339Nano)
	case []interface{}:
		out := make([]interface{}, len(x))
		for i := range x {
			out[i] = jsonTyped(x[i])
		}
		return out
	case map[string]interface{}:
		out := make(map[string]interface{}, len(x))
		for k, e := range x {
			out[k] = jsonTyped(e)
		}
		return out
	}
	return v
}

func (e *Exec) stepExport(op *Op, mc *model.Coll) {
	what := op.Brief()
	path := tempName(e.Dir, op.File)
	want := ""
	if mc == nil {
		want = "ErrCollectionNotExist"
	}
	raw0 := e.snap(true)
	err := e.invoke(true, func() error { return e.DB.ExportCollection(op.Coll, path) })
	switch e.judge(err, want, []string{"C19"}, what) {
	case outOK:
		e.checked("export")
		if raw0.ok && !raw0.same(e.snap(true)) {
			e.fail([]string{"C19", "C09"}, "C19/export-modified-source", fmt.Sprintf("%s changed the stored state", what), nil)
			return
		}
		if !fileExists(path) {
			e.fail([]string{"C19"}, "C19/export-no-file", fmt.Sprintf("%s succeeded but wrote no file", what), nil)
			return
		}
		exp := map[string]model.Doc{}
		for id, d := range mc.Docs {
			exp[id] = val.CloneMap(d)
		}
		e.exports[op.File] = exp
		if len(mc.Docs) > 0 {
			e.probe("export-nonempty")
		}
		if len(mc.Indexes) > 0 {
			e.probe("export-from-indexed")
		}
	case outFailed:
		e.noEffect(raw0, what, []string{"C19"})
	}
}

// importSource returns the documents the file was exported from (recorded at
// export time), or nil when no export wrote that file.
func (e *Exec) importSource(op *Op) map[string]model.Doc {
	return e.exports[op.File]
}

func (e *Exec) writeBadFile(op *Op, path string) {
	switch op.FileKind {
	case "missing":
		os.Remove(path)
	case "dir":
		os.RemoveAll(path)
		os.Mkdir(path, 0o755)
	case "empty":
		os.WriteFile(path, nil, 0o644)
	case "truncated":
		b, err := os.ReadFile(path)
		if err != nil || len(b) < 4 {
			b = []byte(`[{"_id":"7d1d1b0c-5b3f-4f0e-9b55-2f1c5f6b8a11","a":1},{"_id":"`)
		} else if i := strings.LastIndex(string(b[:len(b)*2/3]), "},{"); i > 0 && len(op.File)%2 == 0 {
			b = b[:i+1] // cut exactly between two documents
		} else {
			b = b[:len(b)/2]
		}
		os.WriteFile(path, b, 0o644)
	case "notarray":
		os.WriteFile(path, []byte(`{"a":1}`), 0o644)
	case "scalars":
		os.WriteFile(path, []byte(`[1,2,3]`), 0o644)
	case "badid":
		os.WriteFile(path, []byte(`[{"_id":"7d1d1b0c-5b3f-4f0e-9b55-2f1c5f6b8a11","a":1},{"_id":"not-a-uuid","a":2}]`), 0o644)
	case "cutboundary": // an array that ends right after a complete element
		os.WriteFile(path, []byte(`[{"_id":"7d1d1b0c-5b3f-4f0e-9b55-2f1c5f6b8a11","a":1},{"_id":"7d1d1b0c-5b3f-4f0e-9b55-2f1c5f6b8a12","a":2}`), 0o644)
	case "cutcomma":
		os.WriteFile(path, []byte(`[{"_id":"7d1d1b0c-5b3f-4f0e-9b55-2f1c5f6b8a11","a":1},`), 0o644)
	case "openonly":
		os.WriteFile(path, []byte(`[`), 0o644)
	case "nullelem":
		os.WriteFile(path, []byte(`[{"_id":"7d1d1b0c-5b3f-4f0e-9b55-2f1c5f6b8a11","a":1},null]`), 0o644)
	case "nonobject":
		os.WriteFile(path, []byte(`[{"_id":"7d1d1b0c-5b3f-4f0e-9b55-2f1c5f6b8a11","a":1},[1,2]]`), 0o644)
	case "dupid":
		os.WriteFile(path, []byte(`[{"_id":"7d1d1b0c-5b3f-4f0e-9b55-2f1c5f6b8a11","a":1},{"_id":"7d1d1b0c-5b3f-4f0e-9b55-2f1c5f6b8a11","a":2}]`), 0o644)
	}
}

func (e *Exec) stepImport(op *Op) {
	what := op.Brief()
	path := tempName(e.Dir, op.File)
	if op.FileKind != "" {
		e.writeBadFile(op, path)
		e.probe("import-bad-file-" + op.FileKind)
	}
	_, exists := e.M.Colls[op.Coll]
	src := e.importSource(op)
	want := ""
	switch {
	case op.FileKind != "":
		want = "any"
	case !fileExists(path) || src == nil:
		want = "any"
	case exists:
		want = "ErrCollectionExist"
		e.probe("import-existing-name")
	}
	before := e.snap(true)
	err := e.invoke(true, func() error { return e.DB.ImportCollection(op.Coll, path) })
	apply := func() {
		nc := &model.Coll{Docs: map[string]model.Doc{}, Indexes: map[string]bool{}}
		for id, d := range src {
			nd := jsonTyped(val.CloneMap(d)).(map[string]interface{})
			// the expiration instant is the one field whose type the library prescribes: a
			// document whose _expiresAt is text is not a valid document, so an import that
			// succeeds has turned the exported text back into the instant it denotes
			if txt, isS := nd["_expiresAt"].(string); isS {
				if t, err := time.Parse(time.RFC3339Nano, txt); err == nil {
					nd["_expiresAt"] = t
				}
			}
			nc.Docs[id] = nd
			e.noteIDs(id)
		}
		e.M.Colls[op.Coll] = nc
	}
	switch e.judge(err, want, []string{"C19"}, what) {
	case outOK:
		e.checked("import")
		apply()
		if len(src) > 0 {
			e.probe("import-nonempty")
		}
		// values equal after JSON typing: compare by value (numbers numerically)
		got, _, rerr := e.readColl(op.Coll)
		if e.V != nil {
			return
		}
		if rerr != nil {
			e.fail([]string{"C19"}, "C19/import-readback", fmt.Sprintf("after %s: %v", what, rerr), nil)
			return
		}
		nc := e.M.Colls[op.Coll]
		if len(got) != len(nc.Docs) {
			e.fail([]string{"C19"}, "C19/import-count", fmt.Sprintf("%s: imported %d documents, source has %d", what, len(got), len(nc.Docs)), nil)
			return
		}
		for _, id := range nc.IDs() {
			wantDoc := nc.Docs[id]
			g, ok := got[id]
			if !ok {
				e.fail([]string{"C19"}, "C19/import-ids", fmt.Sprintf("%s: source _id %s is missing from the imported collection", what, id), nil)
				return
			}
			if t, isT := g["_expiresAt"].(time.Time); isT {
				// the expiration instant is the one field whose type the library prescribes:
				// an import may give it back as the instant its exported text denotes
				if txt, isS := wantDoc["_expiresAt"].(string); isS && t.Format(time.RFC3339Nano) == txt {
					wantDoc = val.CloneMap(wantDoc)
					wantDoc["_expiresAt"] = t
					e.probe("import-expiring-document")
				}
			}
			if val.Compare(wantDoc, g) != 0 {
				e.fail([]string{"C19"}, "C19/import-values", fmt.Sprintf("%s: %s", what, describeDocDiff(id, wantDoc, g)), nil)
				return
			}
			nc.Docs[id] = g // adopt the concrete Go types clover chose
		}
		e.afterWrite(op.Coll, []string{"C19"}, what)
	case outFailed, outCapacity:
		// the statement: no existing collection is altered. Whether the new
		// name is left behind is the no-trace property's business.
		e.checked("import-failure")
		after := e.snap(true)
		if before.ok && after.ok && !before.same(after) {
			// distinguish: existing collections changed (C19) vs only residue (C04)
			saved := e.V
			e.compareAll("", nil, what)
			if e.V != nil && e.V.Rule == "C13/catalog" && !exists {
				// only the new name was left behind
				e.V = saved
				e.fail([]string{"C04"}, "C04/failed-op-left-trace", fmt.Sprintf("%s failed (%v) but left collection %q behind", what, err, op.Coll), map[string]string{"composite": "import", "fileKind": op.FileKind})
				return
			}
			if e.V != nil {
				e.V.Props = append([]string{"C19", "C04"}, e.V.Props...)
				e.V.Rule = "C19/failed-import-altered(" + e.V.Rule + ")"
				return
			}
			e.fail([]string{"C04"}, "C04/failed-op-left-trace", fmt.Sprintf("%s failed (%v) but the stored state changed", what, err), map[string]string{"composite": "import", "fileKind": op.FileKind})
		}
	case outCrashed:
		e.settleCrash(op, apply)
	}
}

func (e *Exec) stepCreateByQuery(op *Op) {
	what := op.Brief()
	_, exists := e.M.Colls[op.Coll]
	src := e.M.Colls[op.Q.Coll]
	want := ""
	switch {
	case exists:
		want = "ErrCollectionExist"
	case src == nil:
		want = "ErrCollectionNotExist"
	}
	before := e.snap(true)
	cq := QueryToClover(op.Q)
	err := e.invoke(true, func() error { return e.DB.CreateCollectionByQuery(op.Coll, cq) })
	apply := func() {
		nc := &model.Coll{Docs: map[string]model.Doc{}, Indexes: map[string]bool{}}
		for _, id := range src.Matching(op.Q.Crit) {
			nc.Docs[id] = val.CloneMap(src.Docs[id])
		}
		e.M.Colls[op.Coll] = nc
	}
	switch e.judge(err, want, []string{"C01", "C13"}, what) {
	case outOK:
		apply()
		e.probe("create-by-query")
		e.afterWrite(op.Coll, []string{"C01", "C13"}, what)
	case outFailed, outCapacity:
		after := e.snap(true)
		if before.ok && after.ok && !before.same(after) {
			e.fail([]string{"C04"}, "C04/failed-op-left-trace", fmt.Sprintf("%s failed (%v) but the stored state changed (collection %q left behind?)", what, err, op.Coll), map[string]string{"composite": "createByQuery"})
		}
	case outCrashed:
		e.settleCrash(op, apply)
	}
}

// ---- after Close -------------------------------------------------------------------------------

func (e *Exec) stepAfterClose(op *Op) {
	if !e.closed {
		err := e.invoke(false, func() error { return e.DB.Close() })
		if e.V != nil {
			return
		}
		_ = err
		e.closed = true
	}
	e.probe("api-after-close")
	coll := op.Coll
	id := "00000000-0000-4000-8000-000000000000"
	q := query.NewQuery(coll).Where(query.Field("a").Gt(1)).Sort(query.SortOption{Field: "a", Direction: -1}).Limit(3)
	doc := document.NewDocumentOf(map[string]interface{}{"a": int64(1)})
	calls := []func() error{
		func() error { return e.DB.CreateCollection(coll + "x") },
		func() error { _, er := e.DB.HasCollection(coll); return er },
		func() error { _, er := e.DB.ListCollections(); return er },
		func() error { return e.DB.Insert(coll, doc) },
		func() error { _, er := e.DB.InsertOne(coll, document.NewDocument()); return er },
		func() error { return e.DB.Save(coll, map[string]interface{}{"a": 1}) },
		func() error { _, er := e.DB.FindAll(q); return er },
		func() error { _, er := e.DB.FindFirst(q); return er },
		func() error { _, er := e.DB.Count(q); return er },
		func() error { _, er := e.DB.Count(query.NewQuery(coll)); return er },
		func() error { _, er := e.DB.Exists(q); return er },
		func() error { return e.DB.ForEach(q, func(*document.Document) bool { return true }) },
		func() error { _, er := e.DB.FindById(coll, id); return er },
		func() error { return e.DB.DeleteById(coll, id) },
		func() error {
			return e.DB.UpdateById(coll, id, func(d *document.Document) *document.Document { return d })
		},
		func() error { return e.DB.ReplaceById(coll, id, doc) },
		func() error { return e.DB.Update(q, map[string]interface{}{"a": 2}) },
		func() error {
			return e.DB.UpdateFunc(q, func(d *document.Document) *document.Document { return d })
		},
		func() error { return e.DB.Delete(q) },
		func() error { return e.DB.CreateIndex(coll, "a") },
		func() error { _, er := e.DB.HasIndex(coll, "a"); return er },
		func() error { _, er := e.DB.ListIndexes(coll); return er },
		func() error { return e.DB.DropIndex(coll, "a") },
		func() error { return e.DB.DropCollection(coll) },
		func() error { return e.DB.ExportCollection(coll, tempName(e.Dir, "closed.json")) },
		func() error { return e.DB.ImportCollection(coll+"y", tempName(e.Dir, "closed.json")) },
		func() error { return e.DB.CreateCollectionByQuery(coll+"z", q) },
		func() error { return e.DB.Close() },
	}
	for i, c := range calls {
		e.checked("after-close-call")
		e.invoke(false, c)
		if e.V != nil {
			e.V.Features["afterClose"] = "1"
			e.V.Features["call"] = fmt.Sprint(i)
			// a transaction leak after close is not meaningful
			return
		}
	}
}

// ---- the consistency audit ------------------------------------------------------------------------------

// Audit checks that documents, index entries and counters agree, without
// knowing the key layout: API self-consistency plus raw key-set equality with a
// database freshly built from the model state.
func (e *Exec) Audit() {
	if e.V != nil || e.closed {
		return
	}
	saved := e.cur
	defer func() { e.cur = saved }()
	e.checked("audit")
	for _, name := range e.M.CollNames() {
		mc := e.M.Colls[name]
		// 1. counter vs scan vs model
		var n int
		err := e.invoke(false, func() error {
			var er error
			n, er = e.DB.Count(query.NewQuery(name))
			return er
		})
		if e.V != nil {
			return
		}
		if err != nil {
			e.auditFail([]string{"C06", "C09"}, "C06/count-error", fmt.Sprintf("audit: Count(%q) failed: %v", name, err), nil)
			return
		}
		docs, err := e.findAll(query.NewQuery(name))
		if e.V != nil {
			return
		}
		if err != nil {
			e.auditFail([]string{"C06", "C01"}, "C06/scan-error", fmt.Sprintf("audit: FindAll(%q) failed: %v", name, err), nil)
			return
		}
		if n != len(docs) || n != len(mc.Docs) {
			e.auditFail([]string{"C06", "C09"}, "C06/count", fmt.Sprintf("audit: collection %q: Count=%d, FindAll returns %d, model has %d documents", name, n, len(docs), len(mc.Docs)), e.collFeatures(name))
			return
		}
		// 2. every index enumerates exactly the collection
		for _, f := range mc.IndexFields() {
			for _, dir := range []int{1, -1} {
				res, err := e.findAll(query.NewQuery(name).Sort(query.SortOption{Field: f, Direction: dir}))
				if e.V != nil {
					return
				}
				if err != nil {
					e.auditFail([]string{"C06", "C14", "C02", "C01"}, "C06/index-scan-error", fmt.Sprintf("audit: index scan of %q.%q failed: %v", name, f, err), map[string]string{"dir": fmt.Sprint(dir)})
					return
				}
				if e.Ctl.GetsUnderCursor > 0 {
					e.probe("audit-index-scan")
				}
				// order: the sequence must be a valid ordering by the documents' CURRENT values
				// (an entry left under an old value puts its document at the wrong position)
				so := []model.SortOpt{{Field: f, Dir: dir}}
				var prevT *model.KeyTuple
				for i, d := range res {
					md, ok := mc.Docs[d.ObjectId()]
					if !ok {
						continue
					}
					t := model.TupleOf(md, so)
					if prevT != nil && model.DefinitelyAfter(*prevT, t, so) {
						e.auditFail([]string{"C06", "C14", "C02", "C08", "C01"}, "C06/index-order", fmt.Sprintf("audit: enumerating %q through its index on %q (dir %d): position %d (%s) sorts before position %d (%s): an index entry does not reflect the document's current value", name, f, dir, i, model.TupleClassKey(t), i-1, model.TupleClassKey(*prevT)), map[string]string{"dir": fmt.Sprint(dir)})
						return
					}
					tt := t
					prevT = &tt
				}
				seen := map[string]bool{}
				bad := ""
				for _, d := range res {
					id := d.ObjectId()
					if seen[id] {
						bad = "id " + id + " twice"
					}
					seen[id] = true
					if _, ok := mc.Docs[id]; !ok {
						bad = "unknown id " + id
					}
				}
				if bad == "" && len(res) != len(mc.Docs) {
					bad = fmt.Sprintf("%d ids, collection has %d", len(res), len(mc.Docs))
				}
				if bad != "" {
					// this is FindAll(all documents, sorted by f) returning something else than the collection
					e.auditFail([]string{"C06", "C14", "C02", "C01"}, "C06/index-scan", fmt.Sprintf("audit: enumerating %q through its index on %q (FindAll sorted by it, dir %d): %s", name, f, dir, bad), map[string]string{"dir": fmt.Sprint(dir)})
					return
				}
			}
		}
	}
	// 3. canonical rebuild
	s := e.snap(true)
	if !s.ok {
		return
	}
	want, err := RebuildKeys(e.M)
	if err != nil {
		// the rebuild itself uses clover; a failure here is reported by other rules
		return
	}
	e.checked("rebuild-keyset")
	got := s.keys()
	onlyGot, onlyWant := diffKeys(got, want)
	if len(onlyGot) == 0 && len(onlyWant) == 0 {
		return
	}
	if len(got) == len(want) {
		// Same number of keys, different keys. Either entries sit under wrong values
		// (then the index-order and equality witnesses below see it through the
		// API), or the key layout legitimately depends on more than the logical
		// state (e.g. identifiers allocated at creation time): not ours to judge.
		if e.indexWitnesses() {
			return // a witness reported the defect
		}
		e.probe("keyset-differs-same-cardinality-no-api-witness")
		return
	}
	kind := "stale"
	if len(onlyGot) == 0 {
		kind = "missing"
	} else if len(onlyWant) > 0 {
		kind = "both"
	}
	e.auditFail([]string{"C06"}, "C06/rebuild-keyset", fmt.Sprintf("audit: the store holds %d keys where a database freshly built from the same logical state holds %d: stale keys %s (%d), missing keys %s (%d)", len(got), len(want), showKeys(onlyGot), len(onlyGot), showKeys(onlyWant), len(onlyWant)), map[string]string{"kind": kind})
}

// indexWitnesses looks, through the public API only, for a document that an
// equality query through an index does not find under its current value.
func (e *Exec) indexWitnesses() bool {
	for _, name := range e.M.CollNames() {
		mc := e.M.Colls[name]
		for _, f := range mc.IndexFields() {
			for _, id := range mc.IDs() {
				v, has := model.Lookup(mc.Docs[id], f)
				if !has || v == nil {
					continue
				}
				if s, isS := v.(string); isS && strings.HasPrefix(s, "$") {
					continue
				}
				q := &model.Query{Coll: name, Crit: &model.Crit{Op: "eq", F: f, A: &model.Operand{Lit: val.Wrap(v)}}}
				docs, err := e.findAll(QueryToClover(q))
				if e.V != nil {
					return true
				}
				if err != nil {
					continue
				}
				e.checkFindAll(q, docs)
				if e.V != nil {
					e.V.Props = append([]string{"C06"}, e.V.Props...)
					e.V.Rule = "C06/index-witness(" + e.V.Rule + ")"
					return true
				}
			}
		}
	}
	return false
}

// jsonRoundTrip is used by tests of the harness itself.
func jsonRoundTrip(v interface{}) interface{} {
	b, _ := json.Marshal(v)
	var out interface{}
	json.Unmarshal(b, &out)
	return out
}

// ---- document / criteria API without a store (no-panic property) ---------------------------------------

var nastyPaths = []string{"", ".", "a.", ".a", "a..b", "n.a.z", "n.a", "_id", "_expiresAt", "\x00", "a b", "ü.é", "arr.0", "n"}

type docAPIStruct struct {
	A  int                    `clover:"a"`
	S  string                 `clover:"s,omitempty"`
	N  map[string]interface{} `clover:"n"`
	T  *time.Time             `clover:"t"`
	ID string                 `clover:"_id"`
}

func (e *Exec) stepDocAPI(op *Op) {
	docs := op.docMaps()
	if len(docs) == 0 {
		return
	}
	m := docs[0]
	var crit query.Criteria
	if op.Q != nil && op.Q.Crit != nil {
		crit = CritToClover(op.Q.Crit)
	}
	e.probe("doc-api")
	calls := []func(){
		func() {
			d := document.NewDocumentOf(val.CloneMap(m))
			for _, p := range nastyPaths {
				_ = d.Has(p)
				_ = d.Get(p)
			}
			_ = d.Fields(true)
			_ = d.Fields(false)
			_ = d.ToMap()
			_ = d.AsMap()
			_ = d.Copy()
			_ = d.ObjectId()
			_ = d.ExpiresAt()
			_ = d.TTL()
			_ = document.Validate(d)
		},
		func() {
			d := document.NewDocumentOf(val.CloneMap(m))
			for i, p := range nastyPaths {
				d.Set(p, val.Clone(m[fmt.Sprint(i)]))
				d.Set(p, int8(i))
				d.Set(p, []string{"x"})
				d.Set(p, map[string]interface{}{"k": []int{1, 2}})
				d.Set(p, struct{ X, y int }{1, 2})
				d.Set(p, make(chan int)) // unsupported: must leave the document unchanged, not panic
				_ = d.Get(p)
			}
			d.SetAll(map[string]interface{}{"a.b": 1, "a": 2, "": 3})
			d.SetExpiresAt(time.Unix(0, 0))
			_ = d.TTL()
		},
		func() {
			d := document.NewDocumentOf(val.CloneMap(m))
			var asMap map[string]interface{}
			_ = d.Unmarshal(&asMap)
			var st docAPIStruct
			_ = d.Unmarshal(&st)
			var n int
			_ = d.Unmarshal(&n)
			_ = document.NewDocumentOf(st)
			_ = document.NewDocumentOf(&st)
			_ = document.NewDocumentOf(5)
			_ = document.NewDocumentOf("x")
			_ = document.NewDocumentOf([]int{1})
			_ = document.NewDocumentOf(map[int]int{1: 2})
		},
		func() {
			d := document.NewDocumentOf(val.CloneMap(m))
			if b, err := document.Encode(d); err == nil {
				_, _ = document.Decode(b)
				if len(b) > 2 {
					_, _ = document.Decode(b[:len(b)/2]) // truncated record: an error, not a panic
				}
			}
			_, _ = document.Decode(nil)
			_, _ = document.Decode([]byte{0xc1, 0xff, 0x00})
		},
		func() {
			if crit == nil {
				return
			}
			d := document.NewDocumentOf(val.CloneMap(m))
			_ = crit.Satisfy(d)
			_ = crit.Not().Satisfy(d)
			_ = crit.And(crit.Not()).Satisfy(d)
			_ = crit.Or(crit).Satisfy(document.NewDocument())
			_ = query.Field("").Like("(").Satisfy(d) // invalid pattern
			_ = query.Field("a").In().Satisfy(d)
			_ = query.Field("a").Contains().Satisfy(d)
			_ = query.Field("a").Gt(query.Field("")).Satisfy(d)
			_ = query.Field("a").Eq("$").Satisfy(d)
			_ = query.Field("a").Lt(make(chan int)).Satisfy(d) // literal that cannot be normalised
			_ = query.Field("a").Eq(struct{ X int }{1}).Satisfy(d)
		},
	}
	for i, c := range calls {
		e.checked("public-call")
		func() {
			defer func() {
				if r := recover(); r != nil {
					e.fail([]string{"C20"}, "C20/panic", fmt.Sprintf("document/criteria API call group %d panicked on %s: %v\n%s", i, val.String(m), r, trimStack(debug.Stack())), map[string]string{"panic": firstLine(fmt.Sprint(r)), "docapi": fmt.Sprint(i)})
				}
			}()
			c()
		}()
		if e.V != nil {
			return
		}
	}
}
