package sim

import (
	"fmt"
	"io"
	"log"
	"os"
	"path/filepath"
	"sort"

	"github.com/dgraph-io/badger/v4"
	"github.com/ostafen/clover/v2/store"
	badgerstore "github.com/ostafen/clover/v2/store/badger"
	boltstore "github.com/ostafen/clover/v2/store/bbolt"

	"verif/sim/mem"
)

func init() {
	// the badger adapter logs through the std logger in one place
	log.SetOutput(io.Discard)
}

// Backend is what sits under the decorator.
type Backend interface {
	Name() string
	Real() bool
	// Open opens (or reopens) a handle on the durable state.
	Open() (store.Store, error)
	CanReopen() bool
	Destroy()
}

type KV struct{ K, V string }

// DumpStore lists every key/value through a fresh read transaction of st.
func DumpStore(st store.Store) ([]KV, error) {
	tx, err := st.Begin(false)
	if err != nil {
		return nil, err
	}
	defer tx.Rollback()
	cur, err := tx.Cursor(true)
	if err != nil {
		return nil, err
	}
	defer cur.Close()
	var out []KV
	if err := cur.Seek([]byte{}); err != nil {
		return nil, err
	}
	for ; cur.Valid(); cur.Next() {
		it, err := cur.Item()
		if err != nil {
			return nil, err
		}
		out = append(out, KV{string(it.Key), string(it.Value)})
	}
	sort.Slice(out, func(i, j int) bool { return out[i].K < out[j].K })
	return out, nil
}

func SameKVs(a, b []KV) bool {
	if len(a) != len(b) {
		return false
	}
	for i := range a {
		if a[i] != b[i] {
			return false
		}
	}
	return true
}

// ---- MEM ---------------------------------------------------------------------

type MemBackend struct {
	Disk *mem.Disk
	Mode mem.Mode
	Cur  *mem.Store
}

func NewMemBackend(m mem.Mode) *MemBackend { return &MemBackend{Disk: mem.NewDisk(), Mode: m} }

func (b *MemBackend) Name() string {
	n := "mem"
	if b.Mode.Optimistic {
		n += "-opt"
	} else {
		n += "-sw"
	}
	if b.Mode.SnapshotCursor {
		n += "-snapcur"
	} else {
		n += "-livecur"
	}
	return n
}
func (b *MemBackend) Real() bool      { return false }
func (b *MemBackend) CanReopen() bool { return true }
func (b *MemBackend) Destroy()        {}
func (b *MemBackend) Open() (store.Store, error) {
	if b.Cur != nil {
		b.Cur.Crash() // whatever handle was open is gone
	}
	b.Cur = mem.Open(b.Disk, b.Mode)
	return b.Cur, nil
}

// ---- real bbolt ------------------------------------------------------------------

type BoltBackend struct {
	Dir   string
	opens int
}

func NewBoltBackend(parent string) (*BoltBackend, error) {
	dir, err := os.MkdirTemp(parent, "bolt-")
	if err != nil {
		return nil, err
	}
	return &BoltBackend{Dir: dir}, nil
}
func (b *BoltBackend) Name() string    { return "bbolt" }
func (b *BoltBackend) Real() bool      { return true }
func (b *BoltBackend) CanReopen() bool { return true }
func (b *BoltBackend) Destroy()        { os.RemoveAll(b.Dir) }

// Open uses the directory's path relative to the working directory, the way
// the README opens a database (the scratch directories are absolute paths).
func (b *BoltBackend) Open() (store.Store, error) {
	b.opens++
	if b.opens >= 1 {
		if cwd, err := os.Getwd(); err == nil {
			if rel, err := filepath.Rel(cwd, b.Dir); err == nil {
				return boltstore.Open(rel)
			}
		}
	}
	return boltstore.Open(b.Dir)
}

// ---- real badger --------------------------------------------------------------------

type BadgerBackend struct {
	Dir      string
	InMemory bool
	Default  bool // use the shipped default options (badgerstore.Open)
}

func NewBadgerBackend(parent string, inMemory, deflt bool) (*BadgerBackend, error) {
	b := &BadgerBackend{InMemory: inMemory, Default: deflt}
	if !inMemory {
		dir, err := os.MkdirTemp(parent, "badger-")
		if err != nil {
			return nil, err
		}
		b.Dir = dir
	}
	return b, nil
}

func (b *BadgerBackend) Name() string {
	if b.InMemory {
		return "badger-mem"
	}
	if b.Default {
		return "badger-disk-default"
	}
	return "badger-disk"
}
func (b *BadgerBackend) Real() bool      { return true }
func (b *BadgerBackend) CanReopen() bool { return !b.InMemory }
func (b *BadgerBackend) Destroy() {
	if b.Dir != "" {
		os.RemoveAll(b.Dir)
	}
}

// SmallBadgerOptions keeps many parallel badgers cheap.
func SmallBadgerOptions(dir string, inMemory bool) badger.Options {
	opts := badger.DefaultOptions(dir).WithLogger(nil)
	if inMemory {
		opts = opts.WithInMemory(true).WithDir("").WithValueDir("")
	}
	opts = opts.WithMemTableSize(4 << 20).WithValueLogFileSize(8 << 20).WithNumMemtables(2).
		WithNumLevelZeroTables(2).WithNumLevelZeroTablesStall(4).WithNumCompactors(2).
		WithBlockCacheSize(1 << 20).WithIndexCacheSize(1 << 20).WithBaseTableSize(1 << 20)
	if inMemory {
		// in memory badger rejects values above the threshold (there is no value
		// log); the threshold must stay below 15% of the memtable size
		return opts.WithValueThreshold(512 << 10)
	}
	// on disk, larger values go to the value log
	return opts.WithValueThreshold(1 << 10)
}

func (b *BadgerBackend) Open() (store.Store, error) {
	if b.Default && !b.InMemory {
		return badgerstore.Open(b.Dir) // the shipped default
	}
	return badgerstore.OpenWithOptions(SmallBadgerOptions(b.Dir, b.InMemory))
}

// MakeBackend builds a backend by name. parent is a private scratch directory.
func MakeBackend(name, parent string) (Backend, error) {
	switch name {
	case "mem-sw-livecur":
		return NewMemBackend(mem.Mode{}), nil
	case "mem-sw-snapcur":
		return NewMemBackend(mem.Mode{SnapshotCursor: true}), nil
	case "mem-opt-livecur":
		return NewMemBackend(mem.Mode{Optimistic: true}), nil
	case "mem-opt-snapcur":
		return NewMemBackend(mem.Mode{Optimistic: true, SnapshotCursor: true}), nil
	case "bbolt":
		return NewBoltBackend(parent)
	case "badger-mem":
		return NewBadgerBackend(parent, true, false)
	case "badger-disk":
		return NewBadgerBackend(parent, false, false)
	case "badger-disk-default":
		return NewBadgerBackend(parent, false, true)
	}
	return nil, fmt.Errorf("unknown backend %q", name)
}
