package sim

import (
	"fmt"

	clover "github.com/ostafen/clover/v2"
	"github.com/ostafen/clover/v2/document"

	"verif/sim/mem"
	"verif/sim/model"
)

// RebuildKeys builds a fresh database from the logical state by the plain
// history "create collections, insert documents, create indexes" and returns
// its raw key set. clover's key layout is a function of the logical state, so
// this is what the stored key set of any database in that state must be.
func RebuildKeys(m *model.DB) (keys []string, err error) {
	defer func() {
		if r := recover(); r != nil {
			err = fmt.Errorf("rebuild panicked: %v", r)
		}
	}()
	disk := mem.NewDisk()
	db, _ := clover.OpenWithStore(mem.Open(disk, mem.Mode{}))
	for _, name := range m.CollNames() {
		if err := db.CreateCollection(name); err != nil {
			return nil, err
		}
		c := m.Colls[name]
		var docs []*document.Document
		for _, id := range c.IDs() {
			docs = append(docs, DocToClover(c.Docs[id]))
		}
		for len(docs) > 0 {
			n := len(docs)
			if n > 500 {
				n = 500
			}
			if err := db.Insert(name, docs[:n]...); err != nil {
				return nil, err
			}
			docs = docs[n:]
		}
		for _, f := range c.IndexFields() {
			if err := db.CreateIndex(name, f); err != nil {
				return nil, err
			}
		}
	}
	return disk.Snapshot().Keys(), nil
}
