// Package rng is the single source of randomness of the harness: splitmix64.
package rng

type R struct{ s uint64 }

func New(seed uint64) *R { return &R{s: seed} }

func mix(z uint64) uint64 {
	z = (z ^ (z >> 30)) * 0xbf58476d1ce4e5b9
	z = (z ^ (z >> 27)) * 0x94d049bb133111eb
	return z ^ (z >> 31)
}

// Derive gives an independent stream for (seed, labels...).
func Derive(seed uint64, labels ...uint64) *R {
	s := mix(seed + 0x9e3779b97f4a7c15)
	for _, l := range labels {
		s = mix(s ^ mix(l+0x9e3779b97f4a7c15))
	}
	return &R{s: s}
}

func HashString(s string) uint64 {
	h := uint64(1469598103934665603)
	for i := 0; i < len(s); i++ {
		h ^= uint64(s[i])
		h *= 1099511628211
	}
	return h
}

func (r *R) U64() uint64 {
	r.s += 0x9e3779b97f4a7c15
	return mix(r.s)
}

// Intn returns a value in [0,n). n must be > 0.
func (r *R) Intn(n int) int {
	if n <= 0 {
		panic("rng.Intn: n <= 0")
	}
	return int(r.U64() % uint64(n))
}

// Range returns a value in [lo,hi].
func (r *R) Range(lo, hi int) int { return lo + r.Intn(hi-lo+1) }

func (r *R) Float() float64 { return float64(r.U64()>>11) / (1 << 53) }

func (r *R) Chance(p float64) bool { return r.Float() < p }

func (r *R) Bool() bool { return r.U64()&1 == 1 }

// Pick chooses an index according to integer weights.
func (r *R) Pick(weights []int) int {
	tot := 0
	for _, w := range weights {
		tot += w
	}
	if tot <= 0 {
		return r.Intn(len(weights))
	}
	x := r.Intn(tot)
	for i, w := range weights {
		if x < w {
			return i
		}
		x -= w
	}
	return len(weights) - 1
}

// Read implements io.Reader (for the UUID generator seam).
func (r *R) Read(p []byte) (int, error) {
	for i := 0; i < len(p); {
		x := r.U64()
		for j := 0; j < 8 && i < len(p); j++ {
			p[i] = byte(x)
			x >>= 8
			i++
		}
	}
	return len(p), nil
}
