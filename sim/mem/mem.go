// Package mem is the simulated disk: a transactional ordered key/value store
// implementing clover's store.Store. Durable state is an immutable sorted
// version; Commit publishes a new version atomically; Crash drops everything
// volatile. Modes reproduce the behaviours of the two shipped engines
// (single writer vs optimistic commit; live vs snapshot-at-creation cursors).
package mem

import (
	"errors"
	"sort"

	"github.com/ostafen/clover/v2/store"
)

var (
	ErrConflict  = errors.New("memstore: transaction conflict")
	ErrClosed    = errors.New("memstore: store closed")
	ErrTxDone    = errors.New("memstore: transaction finished")
	ErrReadOnly  = errors.New("memstore: write in read-only transaction")
	ErrSelfBlock = errors.New("memstore: Begin(true) while a write transaction is open would block forever")
)

type Mode struct {
	Optimistic     bool // false: single writer (bbolt); true: optimistic commit (badger)
	SnapshotCursor bool // false: cursor sees later writes of its tx; true: snapshot at creation (badger)
}

// Version is an immutable committed state.
type Version struct {
	keys []string
	vals map[string][]byte
}

func (v *Version) Len() int       { return len(v.keys) }
func (v *Version) Keys() []string { return v.keys }
func (v *Version) Get(k string) ([]byte, bool) {
	b, ok := v.vals[k]
	return b, ok
}

// SameAs compares keys and value bytes.
func (v *Version) SameAs(o *Version) bool {
	if v == o {
		return true
	}
	if len(v.keys) != len(o.keys) {
		return false
	}
	for i, k := range v.keys {
		if o.keys[i] != k {
			return false
		}
		if string(v.vals[k]) != string(o.vals[k]) {
			return false
		}
	}
	return true
}

var emptyVersion = &Version{vals: map[string][]byte{}}

// Disk is what survives a crash.
type Disk struct {
	ver       *Version
	seq       uint64
	keySeq    map[string]uint64 // last commit sequence number that wrote each key
	Commits   int
	Conflicts int
}

func NewDisk() *Disk {
	return &Disk{ver: emptyVersion, keySeq: map[string]uint64{}}
}

func (d *Disk) Snapshot() *Version { return d.ver }
func (d *Disk) Restore(v *Version) { d.ver = v }

// Store is one open handle on a Disk.
type Store struct {
	disk      *Disk
	mode      Mode
	dead      bool // closed or crashed
	writeOpen int
	OpenTx    int
	SelfBlock int // times a second Begin(true) was attempted under single-writer mode
}

func Open(d *Disk, m Mode) *Store { return &Store{disk: d, mode: m} }

func (s *Store) Disk() *Disk { return s.disk }
func (s *Store) Mode() Mode  { return s.mode }

// WriterOpen reports whether a write transaction is currently open (used by the
// scheduler to model bbolt's writer lock).
func (s *Store) WriterOpen() bool { return s.writeOpen > 0 }

// Crash drops all volatile state: open transactions are lost, the handle dies.
func (s *Store) Crash() { s.dead = true }

func (s *Store) Close() error {
	s.dead = true
	return nil
}

func (s *Store) Begin(update bool) (store.Tx, error) {
	if s.dead {
		return nil, ErrClosed
	}
	if update && !s.mode.Optimistic && s.writeOpen > 0 {
		s.SelfBlock++
		return nil, ErrSelfBlock
	}
	tx := &Tx{st: s, update: update, base: s.disk.ver, beginSeq: s.disk.seq}
	if update {
		tx.ov = map[string][]byte{}
		tx.del = map[string]bool{}
		s.writeOpen++
		if s.mode.Optimistic {
			tx.reads = map[string]struct{}{}
		}
	}
	s.OpenTx++
	return tx, nil
}

type Tx struct {
	st       *Store
	update   bool
	base     *Version
	beginSeq uint64
	ov       map[string][]byte // puts
	del      map[string]bool   // tombstones
	ovKeys   []string          // sorted keys present in ov or del
	reads    map[string]struct{}
	done     bool
}

func (tx *Tx) finish() {
	if tx.done {
		return
	}
	tx.done = true
	tx.st.OpenTx--
	if tx.update {
		tx.st.writeOpen--
	}
}

func (tx *Tx) touch(k string) {
	i := sort.SearchStrings(tx.ovKeys, k)
	if i < len(tx.ovKeys) && tx.ovKeys[i] == k {
		return
	}
	tx.ovKeys = append(tx.ovKeys, "")
	copy(tx.ovKeys[i+1:], tx.ovKeys[i:])
	tx.ovKeys[i] = k
}

func (tx *Tx) check() error {
	if tx.done {
		return ErrTxDone
	}
	if tx.st.dead {
		return ErrClosed
	}
	return nil
}

func (tx *Tx) Set(key, value []byte) error {
	if err := tx.check(); err != nil {
		return err
	}
	if !tx.update {
		return ErrReadOnly
	}
	k := string(key)
	v := make([]byte, len(value))
	copy(v, value)
	tx.touch(k)
	delete(tx.del, k)
	tx.ov[k] = v
	return nil
}

func (tx *Tx) Delete(key []byte) error {
	if err := tx.check(); err != nil {
		return err
	}
	if !tx.update {
		return ErrReadOnly
	}
	k := string(key)
	tx.touch(k)
	delete(tx.ov, k)
	tx.del[k] = true
	return nil
}

func (tx *Tx) Get(key []byte) ([]byte, error) {
	if err := tx.check(); err != nil {
		return nil, err
	}
	k := string(key)
	if tx.update {
		if v, ok := tx.ov[k]; ok {
			return v, nil
		}
		if tx.del[k] {
			return nil, nil
		}
		if tx.reads != nil {
			tx.reads[k] = struct{}{}
		}
	}
	if v, ok := tx.base.vals[k]; ok {
		return v, nil
	}
	return nil, nil
}

func (tx *Tx) Commit() error {
	if err := tx.check(); err != nil {
		return err
	}
	defer tx.finish()
	if !tx.update || len(tx.ovKeys) == 0 {
		return nil
	}
	d := tx.st.disk
	if tx.reads != nil {
		for k := range tx.reads {
			if d.keySeq[k] > tx.beginSeq {
				d.Conflicts++
				return ErrConflict
			}
		}
	}
	cur := d.ver // under single-writer cur == tx.base; under optimistic it may be newer
	nv := &Version{vals: make(map[string][]byte, len(cur.vals)+len(tx.ov))}
	nv.keys = make([]string, 0, len(cur.keys)+len(tx.ov))
	i, j := 0, 0
	for i < len(cur.keys) || j < len(tx.ovKeys) {
		var k string
		fromOv := false
		switch {
		case i >= len(cur.keys):
			k, fromOv = tx.ovKeys[j], true
			j++
		case j >= len(tx.ovKeys):
			k = cur.keys[i]
			i++
		case cur.keys[i] < tx.ovKeys[j]:
			k = cur.keys[i]
			i++
		case cur.keys[i] > tx.ovKeys[j]:
			k, fromOv = tx.ovKeys[j], true
			j++
		default:
			k, fromOv = tx.ovKeys[j], true
			i++
			j++
		}
		if fromOv {
			if tx.del[k] {
				continue
			}
			nv.keys = append(nv.keys, k)
			nv.vals[k] = tx.ov[k]
		} else {
			nv.keys = append(nv.keys, k)
			nv.vals[k] = cur.vals[k]
		}
	}
	d.seq++
	for _, k := range tx.ovKeys {
		d.keySeq[k] = d.seq
	}
	d.ver = nv
	d.Commits++
	return nil
}

func (tx *Tx) Rollback() error {
	tx.finish()
	return nil
}

// view is what a cursor iterates: base merged with an overlay.
type view struct {
	base   *Version
	ov     map[string][]byte
	del    map[string]bool
	ovKeys []string
}

func (tx *Tx) liveView() view {
	return view{base: tx.base, ov: tx.ov, del: tx.del, ovKeys: tx.ovKeys}
}

func (tx *Tx) frozenView() view {
	v := view{base: tx.base}
	if tx.update {
		v.ov = make(map[string][]byte, len(tx.ov))
		for k, b := range tx.ov {
			v.ov[k] = b
		}
		v.del = make(map[string]bool, len(tx.del))
		for k := range tx.del {
			v.del[k] = true
		}
		v.ovKeys = append([]string(nil), tx.ovKeys...)
	}
	return v
}

// ge returns the smallest live key >= k (strict: > k).
func (v view) ge(k string, strict bool) (string, bool) {
	search := func(keys []string) int {
		if strict {
			return sort.Search(len(keys), func(i int) bool { return keys[i] > k })
		}
		return sort.SearchStrings(keys, k)
	}
	i, j := search(v.base.keys), search(v.ovKeys)
	for i < len(v.base.keys) || j < len(v.ovKeys) {
		switch {
		case j >= len(v.ovKeys) || (i < len(v.base.keys) && v.base.keys[i] < v.ovKeys[j]):
			return v.base.keys[i], true
		case i < len(v.base.keys) && v.base.keys[i] == v.ovKeys[j]:
			if !v.del[v.ovKeys[j]] {
				return v.ovKeys[j], true
			}
			i++
			j++
		default:
			if !v.del[v.ovKeys[j]] {
				return v.ovKeys[j], true
			}
			j++
		}
	}
	return "", false
}

// le returns the largest live key <= k (strict: < k).
func (v view) le(k string, strict bool) (string, bool) {
	search := func(keys []string) int { // index of last candidate, or -1
		if strict {
			return sort.SearchStrings(keys, k) - 1
		}
		return sort.Search(len(keys), func(i int) bool { return keys[i] > k }) - 1
	}
	i, j := search(v.base.keys), search(v.ovKeys)
	for i >= 0 || j >= 0 {
		switch {
		case j < 0 || (i >= 0 && v.base.keys[i] > v.ovKeys[j]):
			return v.base.keys[i], true
		case i >= 0 && v.base.keys[i] == v.ovKeys[j]:
			if !v.del[v.ovKeys[j]] {
				return v.ovKeys[j], true
			}
			i--
			j--
		default:
			if !v.del[v.ovKeys[j]] {
				return v.ovKeys[j], true
			}
			j--
		}
	}
	return "", false
}

func (v view) value(k string) []byte {
	if b, ok := v.ov[k]; ok {
		return b
	}
	return v.base.vals[k]
}

type Cursor struct {
	tx      *Tx
	forward bool
	frozen  *view
	cur     string
	valid   bool
}

func (tx *Tx) Cursor(forward bool) (store.Cursor, error) {
	if err := tx.check(); err != nil {
		return nil, err
	}
	c := &Cursor{tx: tx, forward: forward}
	if tx.st.mode.SnapshotCursor || !tx.update {
		fv := tx.frozenView()
		c.frozen = &fv
	}
	return c, nil
}

func (c *Cursor) view() view {
	if c.frozen != nil {
		return *c.frozen
	}
	return c.tx.liveView()
}

func (c *Cursor) track() {
	if c.valid && c.tx.reads != nil {
		c.tx.reads[c.cur] = struct{}{}
	}
}

func (c *Cursor) Seek(key []byte) error {
	if err := c.tx.check(); err != nil {
		c.valid = false
		return err
	}
	if c.forward {
		c.cur, c.valid = c.view().ge(string(key), false)
	} else {
		c.cur, c.valid = c.view().le(string(key), false)
	}
	c.track()
	return nil
}

func (c *Cursor) Next() {
	if !c.valid || c.tx.check() != nil {
		c.valid = false
		return
	}
	if c.forward {
		c.cur, c.valid = c.view().ge(c.cur, true)
	} else {
		c.cur, c.valid = c.view().le(c.cur, true)
	}
	c.track()
}

func (c *Cursor) Valid() bool { return c.valid && c.tx.check() == nil }

func (c *Cursor) Item() (store.Item, error) {
	if err := c.tx.check(); err != nil {
		return store.Item{}, err
	}
	if !c.valid {
		return store.Item{}, errors.New("memstore: Item on invalid cursor")
	}
	v := c.view().value(c.cur)
	if v == nil {
		v = []byte{}
	}
	return store.Item{Key: []byte(c.cur), Value: v}, nil
}

func (c *Cursor) Close() error { return nil }
