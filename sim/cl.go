// Package sim holds the run-file format, the executor that drives clover and
// the reference model side by side, the generators and the engines.
package sim

import (
	"fmt"
	"math"

	"github.com/ostafen/clover/v2/document"
	"github.com/ostafen/clover/v2/query"

	"verif/sim/model"
	"verif/sim/val"
)

// castNum hands a canonical number to clover as another Go numeric kind with
// the same value; falls back to the canonical value when not representable.
func castNum(v interface{}, kind string) interface{} {
	var i int64
	var isInt bool
	switch x := v.(type) {
	case int64:
		i, isInt = x, true
	case uint64:
		if x <= math.MaxInt64 {
			i, isInt = int64(x), true
		}
	case float64:
		if kind == "float32" && float64(float32(x)) == x {
			return float32(x)
		}
		return v
	default:
		return v
	}
	if !isInt {
		return v
	}
	switch kind {
	case "int":
		return int(i)
	case "int8":
		if i >= math.MinInt8 && i <= math.MaxInt8 {
			return int8(i)
		}
	case "int16":
		if i >= math.MinInt16 && i <= math.MaxInt16 {
			return int16(i)
		}
	case "int32":
		if i >= math.MinInt32 && i <= math.MaxInt32 {
			return int32(i)
		}
	case "uint":
		if i >= 0 {
			return uint(i)
		}
	case "uint8":
		if i >= 0 && i <= math.MaxUint8 {
			return uint8(i)
		}
	case "uint16":
		if i >= 0 && i <= math.MaxUint16 {
			return uint16(i)
		}
	case "uint32":
		if i >= 0 && i <= math.MaxUint32 {
			return uint32(i)
		}
	case "uint64":
		if i >= 0 {
			return uint64(i)
		}
	case "int64":
		return i
	}
	return v
}

func operandToClover(o *model.Operand) interface{} {
	switch o.RefStyle {
	case 1:
		return query.Field(o.Ref)
	case 2:
		return "$" + o.Ref
	}
	x := val.Clone(o.Lit.X)
	if o.NumKind != "" {
		return castNum(x, o.NumKind)
	}
	return x
}

func operandsToClover(os []model.Operand) []interface{} {
	out := make([]interface{}, len(os))
	for i := range os {
		out[i] = operandToClover(&os[i])
	}
	return out
}

type cloverGetter struct{ d *document.Document }

func (g cloverGetter) Get(p string) interface{} { return g.d.Get(p) }
func (g cloverGetter) Has(p string) bool        { return g.d.Has(p) }

// CritToClover compiles the harness AST into clover criteria through the
// public builders.
func CritToClover(c *model.Crit) query.Criteria {
	switch c.Op {
	case "and":
		r := CritToClover(c.Kids[0])
		for _, k := range c.Kids[1:] {
			r = r.And(CritToClover(k))
		}
		return r
	case "or":
		r := CritToClover(c.Kids[0])
		for _, k := range c.Kids[1:] {
			r = r.Or(CritToClover(k))
		}
		return r
	case "not":
		return CritToClover(c.Kids[0]).Not()
	case "exists":
		return query.Field(c.F).Exists()
	case "notexists":
		return query.Field(c.F).NotExists()
	case "eq":
		return query.Field(c.F).Eq(operandToClover(c.A))
	case "neq":
		return query.Field(c.F).Neq(operandToClover(c.A))
	case "gt":
		return query.Field(c.F).Gt(operandToClover(c.A))
	case "gte":
		return query.Field(c.F).GtEq(operandToClover(c.A))
	case "lt":
		return query.Field(c.F).Lt(operandToClover(c.A))
	case "lte":
		return query.Field(c.F).LtEq(operandToClover(c.A))
	case "in":
		return query.Field(c.F).In(operandsToClover(c.As)...)
	case "contains":
		return query.Field(c.F).Contains(operandsToClover(c.As)...)
	case "like":
		return query.Field(c.F).Like(c.Pat)
	case "func":
		spec := c.Func
		return &query.UnaryCriteria{OpType: query.FunctionOp, Field: "", Value: func(d *document.Document) bool {
			return model.EvalPred(spec, cloverGetter{d})
		}}
	}
	panic("CritToClover: unknown op " + c.Op)
}

// QueryToClover builds the clover query through the public builders.
func QueryToClover(q *model.Query) *query.Query {
	cq := query.NewQuery(q.Coll)
	if q.Crit != nil {
		if q.Crit.Op == "func" {
			spec := q.Crit.Func
			cq = cq.MatchFunc(func(d *document.Document) bool { return model.EvalPred(spec, cloverGetter{d}) })
		} else {
			cq = cq.Where(CritToClover(q.Crit))
		}
	}
	if q.SortCalls {
		opts := make([]query.SortOption, len(q.Sort))
		for i, s := range q.Sort {
			opts[i] = query.SortOption{Field: s.Field, Direction: s.Dir}
		}
		cq = cq.Sort(opts...)
	}
	if q.HasSkip {
		cq = cq.Skip(q.Skip)
	}
	if q.HasLimit {
		cq = cq.Limit(q.Limit)
	}
	return cq
}

// DocToClover builds a clover document from a model document.
// Narrow rewrites the numbers of a value into narrower Go types that hold them
// exactly (int, int8, int16, int32, uint, uint8, uint16, uint32, float32): what an
// application passes before clover normalises it. The choice is a function of the
// value alone. Maps stay map[string]interface{}, slices []interface{}.
func Narrow(v interface{}) interface{} {
	switch x := v.(type) {
	case int64:
		switch {
		case x >= -128 && x <= 127:
			switch ((x % 4) + 4) % 4 {
			case 0:
				return int(x)
			case 1:
				return int8(x)
			case 2:
				return int16(x)
			default:
				return int32(x)
			}
		case x >= -(1<<31) && x < 1<<31:
			return int32(x)
		}
		return int(x)
	case uint64:
		switch {
		case x <= 255:
			switch x % 3 {
			case 0:
				return uint8(x)
			case 1:
				return uint16(x)
			default:
				return uint(x)
			}
		case x < 1<<32:
			return uint32(x)
		}
		return uint(x)
	case float64:
		if float64(float32(x)) == x {
			return float32(x)
		}
		return x
	case map[string]interface{}:
		out := make(map[string]interface{}, len(x))
		for k, e := range x {
			out[k] = Narrow(e)
		}
		return out
	case []interface{}:
		out := make([]interface{}, len(x))
		for i, e := range x {
			out[i] = Narrow(e)
		}
		return out
	}
	return v
}

func DocToClover(d model.Doc) *document.Document {
	doc := document.NewDocumentOf(val.CloneMap(d))
	if doc == nil {
		panic(fmt.Sprintf("DocToClover: NewDocumentOf returned nil for %s", val.String(d)))
	}
	return doc
}

// DocFromClover extracts the field map of a clover document.
func DocFromClover(d *document.Document) model.Doc {
	if d == nil {
		return nil
	}
	return d.AsMap()
}
