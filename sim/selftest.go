package sim

import (
	"encoding/json"
	"flag"
	"fmt"
	"os"
	"os/exec"
	"sort"
	"strings"
	"sync"

	"verif/sim/rng"
)

// outcomeHash summarises everything observable about a run: the explicit run
// file it produced (ops, schedule, configuration), the store-call hash, what the
// oracles counted and the violation, if any.
func outcomeHash(o *RunOutcome) uint64 {
	h := o.Hash
	if o.RF != nil {
		c := o.RF.Clone()
		c.Violation = nil
		b, _ := json.Marshal(c)
		h ^= rng.HashString(string(b))
	}
	if o.V != nil {
		h ^= rng.HashString("V:" + o.V.Rule + o.V.Msg)
	}
	if o.Stats != nil {
		var parts []string
		for k, v := range o.Stats.Probes {
			parts = append(parts, fmt.Sprintf("p:%s=%d", k, v))
		}
		for k, v := range o.Stats.Checks {
			parts = append(parts, fmt.Sprintf("c:%s=%d", k, v))
		}
		for k, v := range o.Stats.Fired {
			parts = append(parts, fmt.Sprintf("f:%s=%d", k, v))
		}
		sort.Strings(parts)
		h ^= rng.HashString(strings.Join(parts, ";"))
		h ^= uint64(o.Stats.StoreCalls) * 1099511628211
	}
	return h ^ uint64(o.NOps)<<32 ^ uint64(o.Evals)
}

// oneRun executes global run number gidx of a property's quick tier.
func oneRun(prop string, seed, gidx uint64) (*RunOutcome, string) {
	jobs := JobsFor(prop, "quick")
	base := uint64(0)
	for ji := range jobs {
		job := &jobs[ji]
		n := uint64(job.n("quick"))
		if gidx < base+n {
			if (job.Params["race"] == "1") != raceBuild() {
				return nil, ""
			}
			return engines[job.Engine](job, prop, seed, gidx), job.Engine
		}
		base += n
	}
	return nil, ""
}

// SelfTestMain: verif selftest determinism [--n N] | verif selftest onerun --prop P --gidx I
func SelfTestMain(args []string) int {
	if len(args) < 1 {
		fmt.Fprintln(os.Stderr, "usage: verif selftest determinism|onerun ...")
		return 2
	}
	fs := flag.NewFlagSet("selftest", flag.ExitOnError)
	prop := fs.String("prop", "", "")
	gidx := fs.Uint64("gidx", 0, "")
	seed := fs.Uint64("seed", 424242, "")
	n := fs.Int("n", 30, "run indexes sampled per property")
	fs.Parse(args[1:])
	switch args[0] {
	case "onerun":
		if os.Getenv("VERIF_SCRATCH") == "" {
			d, _ := os.MkdirTemp("", "verif-one-")
			defer os.RemoveAll(d)
			os.Setenv("VERIF_SCRATCH", d)
		}
		o, eng := oneRun(*prop, *seed, *gidx)
		if o == nil {
			fmt.Println("SKIP")
			return 0
		}
		if o.Trouble != nil {
			fmt.Println("TROUBLE", o.Trouble)
			return 2
		}
		rule := ""
		if o.V != nil {
			rule = o.V.Rule
		}
		if os.Getenv("VERIF_DEBUG_PARTS") != "" {
			c := o.RF.Clone()
			c.Violation = nil
			b, _ := json.Marshal(c)
			fmt.Printf("PARTS callhash=%016x rf=%016x nops=%d\n", o.Hash, rng.HashString(string(b)), o.NOps)
		}
		if debugStats && o.Stats != nil {
			fmt.Printf("probes=%v fired=%v checks=%v calls=%d nops=%d evals=%d cfg=%v\n", o.Stats.Probes, o.Stats.Fired, o.Stats.Checks, o.Stats.StoreCalls, o.NOps, o.Evals, o.RF.Cfg)
		}
		if os.Getenv("VERIF_DEBUG_VIOL") != "" && o.V != nil {
			fmt.Println(o.V.String())
			o.RF.Violation = o.V
			o.RF.Save(os.Getenv("VERIF_DEBUG_VIOL"))
		}
		fmt.Printf("HASH %016x engine=%s rule=%s\n", outcomeHash(o), eng, rule)
		return 0
	case "determinism":
		exe, _ := os.Executable()
		props := make([]string, 0, len(propInfo))
		for p := range propInfo {
			if *prop == "" || *prop == p {
				props = append(props, p)
			}
		}
		sort.Strings(props)
		type task struct {
			prop string
			gidx uint64
		}
		var tasks []task
		for _, p := range props {
			jobs := JobsFor(p, "quick")
			base := uint64(0)
			per := *n/len(jobs) + 1
			for _, j := range jobs {
				cnt := uint64(j.n("quick"))
				for k := 0; k < per && uint64(k) < cnt; k++ {
					// spread over the job's index range
					tasks = append(tasks, task{p, base + (uint64(k)*7919)%cnt})
				}
				base += cnt
			}
		}
		procsList := []string{"1", "4", "16", "1", "4", "16"}
		var mu sync.Mutex
		bad := 0
		runs := 0
		byEngine := map[string]int{}
		sem := make(chan struct{}, 16)
		var wg sync.WaitGroup
		for _, t := range tasks {
			wg.Add(1)
			sem <- struct{}{}
			go func(t task) {
				defer wg.Done()
				defer func() { <-sem }()
				var outs []string
				for _, gp := range procsList {
					cmd := exec.Command(exe, "selftest", "onerun", "--prop", t.prop, "--gidx", fmt.Sprint(t.gidx), "--seed", fmt.Sprint(*seed))
					cmd.Env = append(os.Environ(), "GOMAXPROCS="+gp)
					b, _ := cmd.Output() // stdout only: engines' own logging (badger's default logger) carries timestamps
					line := strings.TrimSpace(string(b))
					if !debugStats {
						for _, l := range strings.Split(line, "\n") {
							if strings.HasPrefix(l, "HASH") || l == "SKIP" || strings.HasPrefix(l, "TROUBLE") {
								line = l
							}
						}
					}
					outs = append(outs, line)
				}
				mu.Lock()
				defer mu.Unlock()
				if outs[0] == "SKIP" {
					return
				}
				runs++
				if i := strings.Index(outs[0], "engine="); i >= 0 {
					byEngine[strings.Fields(outs[0][i:])[0]]++
				}
				for _, o := range outs[1:] {
					if o != outs[0] || !strings.HasPrefix(o, "HASH") {
						bad++
						fmt.Printf("NONDETERMINISTIC property=%s gidx=%d: %q\n", t.prop, t.gidx, outs)
						break
					}
				}
			}(t)
		}
		wg.Wait()
		fmt.Printf("determinism self-test: %d runs x %d executions (GOMAXPROCS 1/4/16, twice each), by %v: %d divergent\n", runs, len(procsList), byEngine, bad)
		if bad > 0 {
			return 2
		}
		return 0
	}
	return 2
}

func init() {
	if os.Getenv("VERIF_DEBUG_STATS") != "" {
		debugStats = true
	}
}

var debugStats bool
