package sim

import (
	"fmt"
	"os"
	"strings"
)

// In the -race binary the Go race detector writes its reports to
// $GORACE log_path.<pid>. A concurrent run remembers the size of that file when
// it starts and reads what was appended when it ends: those reports belong to
// that run (reports are written synchronously when the race is detected).

func raceLogPath() string {
	for _, kv := range strings.Fields(os.Getenv("GORACE")) {
		if strings.HasPrefix(kv, "log_path=") {
			return fmt.Sprintf("%s.%d", strings.TrimPrefix(kv, "log_path="), os.Getpid())
		}
	}
	return ""
}

func raceLogSize() int64 {
	p := raceLogPath()
	if p == "" {
		return 0
	}
	st, err := os.Stat(p)
	if err != nil {
		return 0
	}
	return st.Size()
}

func raceLogSince(off int64) string {
	p := raceLogPath()
	if p == "" {
		return ""
	}
	b, err := os.ReadFile(p)
	if err != nil || int64(len(b)) <= off {
		return ""
	}
	return string(b[off:])
}

const cloverPkg = "github.com/ostafen/clover/v2"

// cloverRaces returns the race reports in which one of the two racing accesses
// is made by clover code or by library code called from clover (not through the harness).
func cloverRaces(log string) []string {
	var out []string
	for _, block := range strings.Split(log, "==================") {
		if !strings.Contains(block, "WARNING: DATA RACE") {
			continue
		}
		lines := strings.Split(block, "\n")
		hit := false
		for i := 0; i < len(lines); i++ {
			l := strings.TrimSpace(lines[i])
			isAccess := strings.HasPrefix(l, "Read at") || strings.HasPrefix(l, "Write at") || strings.HasPrefix(l, "Previous read at") || strings.HasPrefix(l, "Previous write at")
			if !isAccess {
				continue
			}
			// frames follow (function line, then file line), innermost first. The access
			// is attributed to the first frame that belongs either to clover or to the
			// harness: memory touched by a library on behalf of clover (a shared
			// bufio.Reader behind an id generator, a map helper of the runtime) is
			// clover's responsibility; memory touched on behalf of the harness (its id
			// generator seam, its decorator, its scheduler) is harness noise.
			for j := i + 1; j+1 < len(lines); j += 2 {
				fn := strings.TrimSpace(lines[j])
				if fn == "" {
					break
				}
				if strings.HasPrefix(fn, cloverPkg) {
					hit = true
					break
				}
				if strings.HasPrefix(fn, "verif/") || strings.HasPrefix(fn, "main.") {
					break
				}
			}
		}
		if hit {
			out = append(out, strings.TrimSpace(block))
		}
	}
	return out
}
