package sim

import (
	"fmt"
	"os"
	"strconv"
	"time"

	"verif/sim/model"
	"verif/sim/rng"
	"verif/sim/val"
)

// HistPlan says how one E-HIST run is derived from (seed, property, run index).
type HistPlan struct {
	Prop     string
	Mode     string
	Backends []string // candidates with weights (name repeated = heavier)
	Faults   []string // candidate fault configurations
	OptFn    func(be string) ExecOpt
}

// RunOutcome is what one executed run reports.
type RunOutcome struct {
	RF      *RunFile
	V       *Violation
	Stats   *Stats
	NOps    int
	Evals   int    // executions behind this outcome (position enumeration engines); 0 means 1
	Hash    uint64 // hash of the run's store-call sequence and results (determinism self-test)
	Trouble error  // harness trouble (never a violation)
}

func execOptFromCfg(cfg map[string]string) ExecOpt {
	o := ExecOpt{FullCompare: cfg["fullCompare"] == "1"}
	o.AuditEvery, _ = strconv.Atoi(cfg["auditEvery"])
	return o
}

func cfgFromExecOpt(o ExecOpt, cfg map[string]string) {
	if o.FullCompare {
		cfg["fullCompare"] = "1"
	}
	cfg["auditEvery"] = strconv.Itoa(o.AuditEvery)
}

func scratchDir() (string, error) {
	base := os.Getenv("VERIF_SCRATCH")
	if base == "" {
		base = os.TempDir()
	}
	return os.MkdirTemp(base, "verif-run-")
}

// GenerateAndRun derives a run from the seed, generating each op from the
// model state reached so far, and executes it. The returned run file contains
// the explicit op list, so that replay does not depend on the generator.
func GenerateAndRun(plan *HistPlan, seed, runIdx uint64) *RunOutcome {
	r := rng.Derive(seed, rng.HashString(plan.Prop), runIdx)
	be := plan.Backends[r.Intn(len(plan.Backends))]
	faults := plan.Faults[r.Intn(len(plan.Faults))]
	if (faults == "crashes") && !isMemName(be) {
		faults = "restarts"
	}
	cfg := DrawCfg(r, plan.Mode, faults)
	if !isMemName(be) {
		if cfg.NOps > 40 {
			cfg.NOps = 40
		}
	}
	rf := &RunFile{Prop: plan.Prop, Engine: "hist", Seed: seed, RunIdx: runIdx, Backend: be, Mode: plan.Mode, IDSeed: r.U64(), Cfg: map[string]string{"faults": faults}}
	opt := plan.OptFn(be)
	cfgFromExecOpt(opt, rf.Cfg)
	if cfg.Extremes {
		rf.Cfg["extremes"] = "1"
	}
	g := NewGen(r, cfg)
	return runHist(rf, g, cfg.NOps)
}

func isMemName(be string) bool { return len(be) >= 3 && be[:3] == "mem" }

// ExecuteRunFile replays an explicit run file.
func ExecuteRunFile(rf *RunFile) *RunOutcome {
	if (rf.Isolate || rf.Engine == "regen") && !inChildProc {
		return executeIsolated(rf)
	}
	switch rf.Engine {
	case "hist", "":
		return runHist(rf, nil, len(rf.Ops))
	}
	if fn, ok := engineReplayers[rf.Engine]; ok {
		return fn(rf)
	}
	return &RunOutcome{RF: rf, Trouble: fmt.Errorf("unknown engine %q", rf.Engine)}
}

var engineReplayers = map[string]func(*RunFile) *RunOutcome{}

func runHist(rf *RunFile, g *Gen, nOps int) *RunOutcome {
	out := &RunOutcome{RF: rf}
	dir, err := scratchDir()
	if err != nil {
		out.Trouble = err
		return out
	}
	defer os.RemoveAll(dir)
	be, err := MakeBackend(rf.Backend, dir)
	if err != nil {
		out.Trouble = err
		return out
	}
	defer be.Destroy()
	opt := execOptFromCfg(rf.Cfg)
	opt.Focus = rf.Prop
	e, err := NewExec(be, dir, rf.IDSeed, opt)
	if err != nil {
		out.Trouble = err
		return out
	}
	defer e.Finish()
	if g != nil && g.Cfg.Mode == "twin" {
		g.setupTwins()
	}
	traceRunStart(rf)
	for i := 0; i < nOps; i++ {
		var op *Op
		if g != nil {
			o := g.Next(e.M)
			rf.Ops = append(rf.Ops, o)
			op = &rf.Ops[len(rf.Ops)-1]
		} else {
			op = &rf.Ops[i]
		}
		if !e.Step(i, op) {
			break
		}
		out.NOps++
	}
	if e.V == nil && !e.closed {
		e.cur = nil
		e.opIdx = len(rf.Ops)
		e.plainAudit = true
		e.Audit()
		e.plainAudit = false
	}
	e.opIdx = len(rf.Ops)
	e.closeAtEnd()
	out.V = e.V
	out.Stats = e.Stats
	out.Hash = e.Ctl.Hash ^ rng.HashString(e.M.Fingerprint())
	if e.V != nil {
		out.Hash ^= rng.HashString(e.V.Rule)
	}
	e.Stats.StoreCalls = e.Ctl.TotalCalls
	return out
}

// SampleOps renders the first ops of a run for evidence samples.
func SampleOps(rf *RunFile, n int) []string {
	var out []string
	for i := range rf.Ops {
		if i >= n {
			out = append(out, fmt.Sprintf("... %d more ops", len(rf.Ops)-n))
			break
		}
		out = append(out, rf.Ops[i].Brief())
	}
	return out
}

// ---- twin mode support in the generator ---------------------------------------------------

func (g *Gen) setupTwins() {
	k := g.R.Range(2, 4)
	names := []string{"tw0", "tw1", "tw2", "tw3"}[:k]
	g.twins = [][]string{names}
	g.Cfg.CollNames = names
	w := g.Cfg.W
	w["CreateCollectionByQuery"], w["Export"], w["Import"] = 0, 0, 0
	w["DropCollection"] = 1 // all twins go and come back: what a drop leaves behind must not show in the re-created ones
	w["CreateCollection"] = 0
	w["HasCollection"], w["ListCollections"] = 0, 0
}

// twinify turns an op aimed at one twin into an op applied to all of them,
// except index operations, which are what makes the twins differ.
func (g *Gen) twinify(op *Op) {
	if len(g.twins) == 0 {
		return
	}
	group := g.twins[0]
	switch op.K {
	case "CreateIndex", "DropIndex", "HasIndex", "ListIndexes", "CreateCollection", "Reopen", "CrashRestart":
		return
	}
	inGroup := false
	name := op.Coll
	if op.Q != nil {
		name = op.Q.Coll
	}
	for _, n := range group {
		if n == name {
			inGroup = true
		}
	}
	if !inGroup {
		return
	}
	op.Colls = append([]string{}, group...)
	for i := range op.Docs {
		if m, ok := op.Docs[i].X.(map[string]interface{}); ok {
			if !hasGivenID(m) {
				m["_id"] = g.newID()
			}
		}
	}
	if op.Q != nil && (op.K == "Update" || op.K == "UpdateFunc" || op.K == "Delete") {
		q := op.Q
		if q.HasSkip || q.HasLimit {
			// make the window deterministic: total order ending in _id
			if !q.SortCalls {
				q.SortCalls = true
			}
			if len(q.Sort) > 0 {
				q.Sort = append(q.Sort, model.SortOpt{Field: "_id", Dir: 1})
			}
		}
	}
}

var _ = time.Now
var _ = val.Wrap
