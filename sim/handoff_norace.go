//go:build !race

package sim

// handoff passes the turn between the scheduler and a client (channel version).
type handoff struct{ ch chan struct{} }

func newHandoff() handoff { return handoff{ch: make(chan struct{}, 1)} }
func (h handoff) signal() { h.ch <- struct{}{} }
func (h handoff) wait()   { <-h.ch }
func raceBuild() bool     { return false }
