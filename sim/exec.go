package sim

import (
	"errors"
	"fmt"
	"os"
	"path/filepath"
	"runtime/debug"
	"sort"
	"strings"
	"time"

	"github.com/gofrs/uuid/v5"
	clover "github.com/ostafen/clover/v2"
	"github.com/ostafen/clover/v2/document"
	"github.com/ostafen/clover/v2/query"
	"github.com/ostafen/clover/v2/store"

	"verif/sim/mem"
	"verif/sim/model"
	"verif/sim/rng"
	"verif/sim/val"
	"verif/sim/wrap"
)

// Stats collects reach probes and counters for evidence.
type Stats struct {
	Ops        map[string]int
	Probes     map[string]int
	Checks     map[string]int // oracle clauses evaluated, by rule family
	StoreCalls int
	Fired      map[string]int // injected faults/crashes that fired, by kind
	States     map[uint64]struct{}
}

func NewStats() *Stats {
	return &Stats{Ops: map[string]int{}, Probes: map[string]int{}, Checks: map[string]int{}, Fired: map[string]int{}, States: map[uint64]struct{}{}}
}

func (s *Stats) Merge(o *Stats) {
	for k, v := range o.Ops {
		s.Ops[k] += v
	}
	for k, v := range o.Probes {
		s.Probes[k] += v
	}
	for k, v := range o.Checks {
		s.Checks[k] += v
	}
	for k, v := range o.Fired {
		s.Fired[k] += v
	}
	for k := range o.States {
		s.States[k] = struct{}{}
	}
	s.StoreCalls += o.StoreCalls
}

type ExecOpt struct {
	AuditEvery   int  // run the consistency audit every n-th op (0 = never, 1 = every op)
	FullCompare  bool // compare the whole logical state with the model after every write op
	TraceStates  bool // keep a clone of the model after every op (E-CRASH parent)
	NoModelCheck bool // worker mode: just execute, no oracle
	// Focus is the property whose check the run belongs to ("" = none): findings
	// of the plain audit that concern only other properties are passed over
	Focus string
}

type Exec struct {
	Be    Backend
	Ctl   *wrap.Ctl
	Inner store.Store
	DB    *clover.DB
	M     *model.DB
	Dir   string
	Opt   ExecOpt
	V     *Violation
	Stats *Stats

	opIdx   int
	cur     *Op
	usedIDs map[string]struct{}
	closed  bool
	States  []*model.DB
	idRng   *rng.R
	exports map[string]map[string]model.Doc
	// inCrashSettle: the op's post-state is being reconstructed after a crash
	inCrashSettle bool
	lastWant      string
	plainAudit    bool // the audit in progress is the plain one (after an op / at the end of a run)
	passedOver    int
	lastFailedOp  int // index of the last op that failed as it had to (-1: none)
	// OpHitCapacity: the current op failed with a legitimate backend capacity error
	OpHitCapacity bool
	// RecordObs: keep a backend-independent log of what each operation returned (E-DIFF)
	RecordObs bool
	Obs       []string
	// faultable store calls made by the last primary public call
	targetFCalls, lastTargetFCalls int
	targetKinds                    []wrap.Kind
	// Acks is called after every completed op (worker mode).
	Acks func(i int)
}

// InstallIDSeam replaces the UUID generator behind clover.NewObjectId with a
// PRNG-driven one. Process-wide: one run at a time per process.
func InstallIDSeam(seed uint64) *rng.R {
	r := rng.Derive(seed, 0x1d5)
	uuid.DefaultGenerator = uuid.NewGenWithOptions(uuid.WithRandomReader(r))
	return r
}

func NewExec(be Backend, dir string, idSeed uint64, opt ExecOpt) (*Exec, error) {
	e := &Exec{Be: be, Ctl: wrap.NewCtl(), M: model.NewDB(), Dir: dir, Opt: opt, Stats: NewStats(), usedIDs: map[string]struct{}{}, exports: map[string]map[string]model.Doc{}, lastFailedOp: -1}
	e.idRng = InstallIDSeam(idSeed)
	if err := e.open(); err != nil {
		return nil, err
	}
	return e, nil
}

func (e *Exec) open() error {
	inner, err := e.Be.Open()
	if err != nil {
		return fmt.Errorf("backend open: %w", err)
	}
	e.Inner = inner
	db, err := clover.OpenWithStore(wrap.New(inner, e.Ctl))
	if err != nil {
		return err
	}
	e.DB = db
	e.closed = false
	return nil
}

// Finish closes the handle (harness bookkeeping, not an op).
func (e *Exec) Finish() {
	e.Stats.StoreCalls += e.Ctl.TotalCalls
	if !e.closed && e.DB != nil {
		e.Ctl.ClearPlan()
		if e.Ctl.TxOpen != 0 && e.Be.Real() {
			// a transaction was leaked (already reported): closing a real engine
			// would wait for it forever; the process abandons the handle instead
			e.closed = true
			return
		}
		done := make(chan struct{})
		go func() {
			defer close(done)
			defer func() { recover() }()
			e.DB.Close()
		}()
		select {
		case <-done:
		case <-time.After(20 * time.Second):
		}
		e.closed = true
	}
}

// closeAtEnd closes the handle as the last step of a run, under the hang
// monitor: a Close that never returns after an operation has failed is a wedged
// database (the failed operation left something behind that Close waits for).
func (e *Exec) closeAtEnd() {
	if e.closed || e.DB == nil || e.V != nil || e.Ctl.TxOpen != 0 {
		return
	}
	e.Ctl.ClearPlan()
	callBegin()
	defer callEnd()
	func() {
		defer func() { recover() }()
		e.DB.Close()
	}()
	e.closed = true
}

func (e *Exec) fail(props []string, rule, msg string, feats map[string]string) {
	if e.V != nil {
		return
	}
	if feats == nil {
		feats = map[string]string{}
	}
	feats["backend"] = e.Be.Name()
	k := ""
	if e.cur != nil {
		k = e.cur.K
		if e.cur.Fault > 0 {
			feats["fault"] = "1"
		}
	}
	if e.lastFailedOp >= 0 && e.opIdx > e.lastFailedOp && e.opIdx <= e.lastFailedOp+2 && (strings.HasSuffix(rule, "error") || rule == "C20/panic") {
		// "later operations on the same handle proceed normally": an operation has just
		// failed (as it had to), and now a valid one fails or cannot be read back
		has := false
		for _, p := range props {
			has = has || p == "C04"
		}
		if !has {
			props = append(append([]string{}, props...), "C04")
		}
		feats["afterFailedOp"] = "1"
	}
	e.V = &Violation{Props: props, Rule: rule, Msg: msg, OpIdx: e.opIdx, OpK: k, Features: feats}
}

// auditFail reports a finding of the read-only audit. In a run that belongs to
// the check of one property (Opt.Focus), a finding of the plain per-operation
// audit which does not concern that property is counted and passed over: the
// audit observes, it does not steer the run, so the run can go on to the
// operations that would show the focused property broken (a stale index entry
// is C06's business when found by the audit, and C03's when the next bulk
// operation walks that index and calls the update function twice).
func (e *Exec) auditFail(props []string, rule, msg string, feats map[string]string) {
	if e.plainAudit && e.Opt.Focus != "" {
		has := false
		for _, p := range props {
			has = has || p == e.Opt.Focus
		}
		if !has {
			e.Stats.Probes["audit-finding-of-another-property-passed-over"]++
			e.passedOver++
			return
		}
	}
	e.fail(props, rule, msg, feats)
}

// withProps returns props plus the given ones, without duplicates.
func withProps(props []string, more ...string) []string {
	out := append([]string{}, props...)
	for _, m := range more {
		has := false
		for _, p := range out {
			has = has || p == m
		}
		if !has {
			out = append(out, m)
		}
	}
	return out
}

func (e *Exec) probe(name string)     { e.Stats.Probes[name]++ }
func (e *Exec) checked(family string) { e.Stats.Checks[family]++ }

var errCrashed = errors.New("simulated crash")
var errAbandoned = errors.New("operation abandoned in mid-flight")

// invoke runs one public clover call under recover, with the op's fault/crash
// plan armed when primary is true.
func (e *Exec) invoke(primary bool, f func() error) (err error) {
	e.Ctl.ClearPlan()
	if primary && e.cur != nil {
		e.Ctl.FaultAt = e.cur.Fault
		e.Ctl.CrashAt = e.cur.Crash
		e.Ctl.CrashAfter = e.cur.CrashPost
		if e.cur.Note != "abandon-cb" {
			e.Ctl.PanicAt = e.cur.Abandon
		}
	}
	e.Ctl.BeginOp()
	e.checked("public-call")
	defer func() {
		if r := recover(); r != nil {
			if _, ok := r.(wrap.CrashSignal); ok {
				err = errCrashed
				return
			}
			if _, ok := r.(wrap.AbandonSignal); ok {
				// the goroutine has unwound through clover's deferred calls: the
				// transaction it had open must be gone
				e.Ctl.ClearPlan()
				err = errAbandoned
				if e.Ctl.TxOpen != 0 || e.Ctl.CursorsOpen != 0 {
					e.fail([]string{"C05", "C04"}, "C05/abandoned-tx-left-open", fmt.Sprintf("an operation abandoned in mid-flight (its goroutine unwound) left %d store transaction(s) and %d cursor(s) open: the handle is wedged", e.Ctl.TxOpen, e.Ctl.CursorsOpen), nil)
				}
				return
			}
			props := []string{"C20"}
			if e.cur != nil {
				props = append(props, opProps[e.cur.K]...)
			}
			if e.Ctl.FaultFired {
				props = append(props, "C04") // a store failure must surface as an error, not as a panic
			}
			e.fail(props, "C20/panic", fmt.Sprintf("panic: %v\n%s", r, trimStack(debug.Stack())), map[string]string{"panic": firstLine(fmt.Sprint(r))})
			err = fmt.Errorf("panic: %v", r)
		}
		e.Ctl.ClearPlan()
	}()
	callBegin()
	defer callEnd()
	err = f()
	if primary {
		e.targetFCalls = e.Ctl.FCalls
	}
	if e.Ctl.CursorsOpen != 0 && e.Ctl.TxOpen == 0 {
		props := []string{"C20"}
		if err != nil {
			props = []string{"C04", "C20"}
		}
		e.fail(props, "C04/cursor-leak", fmt.Sprintf("public call returned (err=%v) with %d store cursor(s) never closed: badger panics (\"Unclosed iterator at time of Txn.Discard\") when such a transaction is discarded", err, e.Ctl.CursorsOpen), nil)
	}
	if e.Ctl.TxOpen != 0 {
		props := []string{"C20"}
		if err != nil {
			props = []string{"C04", "C20"}
		}
		e.fail(props, "C04/tx-leak", fmt.Sprintf("public call returned (err=%v) with %d store transaction(s) still open (write: %d): the handle is wedged", err, e.Ctl.TxOpen, e.Ctl.WriteTxOpen), nil)
	}
	if e.Ctl.FaultFired {
		e.Stats.Fired["fault-"+e.Ctl.FaultKind.String()]++
	}
	return err
}

func firstLine(s string) string {
	if i := strings.IndexByte(s, '\n'); i >= 0 {
		s = s[:i]
	}
	if len(s) > 80 {
		s = s[:80]
	}
	return s
}

func trimStack(b []byte) string {
	lines := strings.Split(string(b), "\n")
	var keep []string
	for _, l := range lines {
		if strings.Contains(l, "clover") {
			keep = append(keep, strings.TrimSpace(l))
		}
		if len(keep) >= 12 {
			break
		}
	}
	return strings.Join(keep, "\n")
}

// ---- raw snapshots ---------------------------------------------------------------

type rawSnap struct {
	ver *mem.Version
	kvs []KV
	ok  bool
}

func (e *Exec) snap(force bool) rawSnap {
	if mb, ok := e.Be.(*MemBackend); ok {
		return rawSnap{ver: mb.Disk.Snapshot(), ok: true}
	}
	if !force {
		return rawSnap{}
	}
	kvs, err := DumpStore(e.Inner)
	if err != nil {
		return rawSnap{}
	}
	return rawSnap{kvs: kvs, ok: true}
}

func (a rawSnap) same(b rawSnap) bool {
	if a.ver != nil && b.ver != nil {
		return a.ver.SameAs(b.ver)
	}
	return SameKVs(a.kvs, b.kvs)
}

func (a rawSnap) keys() []string {
	if a.ver != nil {
		return a.ver.Keys()
	}
	ks := make([]string, len(a.kvs))
	for i, kv := range a.kvs {
		ks[i] = kv.K
	}
	return ks
}

func diffKeys(a, b []string) (onlyA, onlyB []string) {
	sa := map[string]bool{}
	for _, k := range a {
		sa[k] = true
	}
	sb := map[string]bool{}
	for _, k := range b {
		sb[k] = true
		if !sa[k] {
			onlyB = append(onlyB, k)
		}
	}
	for _, k := range a {
		if !sb[k] {
			onlyA = append(onlyA, k)
		}
	}
	return
}

func showKeys(ks []string) string {
	if len(ks) > 6 {
		ks = ks[:6]
	}
	qs := make([]string, len(ks))
	for i, k := range ks {
		qs[i] = fmt.Sprintf("%q", k)
	}
	return "[" + strings.Join(qs, " ") + "]"
}

// ---- error expectations -------------------------------------------------------------

var sentinels = map[string]error{
	"ErrCollectionExist":    clover.ErrCollectionExist,
	"ErrCollectionNotExist": clover.ErrCollectionNotExist,
	"ErrIndexExist":         clover.ErrIndexExist,
	"ErrIndexNotExist":      clover.ErrIndexNotExist,
	"ErrDocumentNotExist":   clover.ErrDocumentNotExist,
	"ErrDuplicateKey":       clover.ErrDuplicateKey,
}

var sentinelProps = map[string][]string{
	"ErrCollectionExist":    {"C13"},
	"ErrCollectionNotExist": {"C13"},
	"ErrIndexExist":         {"C14"},
	"ErrIndexNotExist":      {"C14"},
	"ErrDocumentNotExist":   {"C12"},
	"ErrDuplicateKey":       {"C12"},
}

// IsBackendCapacity recognises legitimate capacity errors of a backend.
func IsBackendCapacity(err error) bool {
	return err != nil && strings.Contains(err.Error(), "Txn is too big")
}

func IsConflict(err error) bool {
	return err != nil && (errors.Is(err, mem.ErrConflict) || strings.Contains(err.Error(), "Transaction Conflict"))
}

// outcome classifies what happened to a primary call.
type outcome int

const (
	outOK       outcome = iota // succeeded as expected
	outFailed                  // failed as expected (or by injected fault): must have no effect
	outBad                     // violation already recorded
	outCrashed                 // simulated crash
	outCapacity                // backend capacity error: treated as a legitimate failure
)

// judge compares err with the expectation. want: "" success, "any" any error,
// otherwise a sentinel name. okProps are the properties blamed when a valid
// operation fails or an invalid one succeeds.
func errClass(err error) string {
	if err == nil {
		return "ok"
	}
	for name, s := range sentinels {
		if errors.Is(err, s) {
			return name
		}
	}
	return "error"
}

func (e *Exec) obs(format string, args ...interface{}) {
	if e.RecordObs {
		e.Obs = append(e.Obs, fmt.Sprintf("op#%d ", e.opIdx)+fmt.Sprintf(format, args...))
	}
}

func (e *Exec) judge(err error, want string, okProps []string, what string) outcome {
	e.lastWant = want
	if errors.Is(err, errCrashed) {
		return outCrashed
	}
	if errors.Is(err, errAbandoned) {
		if e.V != nil {
			return outBad
		}
		// abandoned before commit: entirely absent, and everything still consistent
		e.checked("abandon")
		e.Stats.Fired["abandon"]++
		if e.Ctl.WritesBeforeFire > 0 {
			e.probe("abandon-with-writes-in-flight")
		}
		e.compareAllAs([]string{"C05"}, "C05/abandoned-op-left-trace", what+" (abandoned in mid-flight)")
		if e.V == nil {
			e.Audit()
			if e.V != nil {
				e.V.Props = append([]string{"C05"}, e.V.Props...)
				e.V.Rule = "C05/abandoned-op-left-trace(" + e.V.Rule + ")"
			}
		}
		if e.V != nil {
			return outBad
		}
		e.lastFailedOp = e.opIdx
		return outFailed
	}
	e.obs("%s -> %s", what, errClass(err))
	if e.V != nil {
		return outBad
	}
	if e.Ctl.FaultFired {
		e.checked("fault-reported")
		if err == nil {
			e.fail(append([]string{"C04"}, opProps[e.cur.K]...), "C04/fault-swallowed", fmt.Sprintf("%s: the store failed at %s call #%d of the operation but the operation returned success", what, e.Ctl.FaultKind, e.cur.Fault), map[string]string{"faultKind": e.Ctl.FaultKind.String()})
			return outBad
		}
		return outFailed
	}
	if IsBackendCapacity(err) {
		e.probe("backend-capacity-error")
		e.OpHitCapacity = true
		return outCapacity
	}
	switch want {
	case "":
		if err != nil {
			e.fail(okProps, "unexpected-error", fmt.Sprintf("%s: valid operation failed: %v", what, err), map[string]string{"err": firstLine(err.Error())})
			return outBad
		}
		return outOK
	case "any":
		if err == nil {
			e.fail(append([]string{"C04"}, okProps...), "invalid-accepted", fmt.Sprintf("%s: invalid operation returned success", what), nil)
			return outBad
		}
		e.lastFailedOp = e.opIdx
		return outFailed
	case "maybe":
		// the input is at the edge of what the record encoding can hold: the
		// operation may be refused (then without effect) or carried out in full
		if err == nil {
			return outOK
		}
		e.probe("unencodable-value-refused")
		e.lastFailedOp = e.opIdx
		return outFailed
	default:
		if err == nil {
			e.fail(append([]string{"C04"}, sentinelProps[want]...), "invalid-accepted", fmt.Sprintf("%s: expected %s, got success", what, want), map[string]string{"want": want})
			return outBad
		}
		if !errors.Is(err, sentinels[want]) {
			e.fail(sentinelProps[want], "wrong-sentinel", fmt.Sprintf("%s: expected %s, got %v", what, want, err), map[string]string{"want": want, "err": firstLine(err.Error())})
			return outBad
		}
		e.lastFailedOp = e.opIdx
		return outFailed
	}
}

// noEffect checks that a failed call left the raw store untouched.
func (e *Exec) noEffect(before rawSnap, what string, extra []string) {
	if e.V != nil || !before.ok {
		return
	}
	e.checked("no-effect")
	after := e.snap(true)
	if !after.ok || before.same(after) {
		return
	}
	a, b := diffKeys(before.keys(), after.keys())
	feats := map[string]string{}
	if e.Ctl.FaultFired {
		feats["faultKind"] = e.Ctl.FaultKind.String()
	}
	e.fail(append([]string{"C04"}, extra...), "C04/failed-op-left-trace", fmt.Sprintf("%s returned an error but the stored key/value state changed: keys removed %s, keys added %s (or values changed)", what, showKeys(a), showKeys(b)), feats)
}

// ---- reading clover state ---------------------------------------------------------------

func (e *Exec) findAll(cq *query.Query) (docs []*document.Document, err error) {
	err = e.invoke(false, func() error {
		var er error
		docs, er = e.DB.FindAll(cq)
		return er
	})
	return
}

// readColl returns the collection contents as seen through FindAll(all).
func (e *Exec) readColl(name string) (map[string]model.Doc, []string, error) {
	docs, err := e.findAll(query.NewQuery(name))
	if err != nil {
		return nil, nil, err
	}
	out := make(map[string]model.Doc, len(docs))
	order := make([]string, 0, len(docs))
	for _, d := range docs {
		id := d.ObjectId()
		if _, dup := out[id]; dup {
			return nil, nil, fmt.Errorf("FindAll(all) returned id %s twice", id)
		}
		out[id] = DocFromClover(d)
		order = append(order, id)
	}
	return out, order, nil
}

func describeDocDiff(id string, want, got model.Doc) string {
	return fmt.Sprintf("id %s: expected %s, got %s", id, val.String(want), val.String(got))
}

// compareColl compares clover's view of a collection with the model.
// Returns "" when equal, else a description; typeOnly is set when the only
// differences are Go types / zones (values compare equal).
func (e *Exec) compareColl(name string) (diff string, typeOnly bool, err error) {
	got, _, err := e.readColl(name)
	if err != nil {
		return "", false, err
	}
	mc := e.M.Colls[name]
	typeOnly = true
	var diffs []string
	for _, id := range mc.IDs() {
		g, ok := got[id]
		if !ok {
			diffs = append(diffs, fmt.Sprintf("id %s missing", id))
			typeOnly = false
			continue
		}
		if !val.Equal(mc.Docs[id], g) {
			if !onlyTyping(mc.Docs[id], g) {
				typeOnly = false
			}
			diffs = append(diffs, describeDocDiff(id, mc.Docs[id], g))
		}
	}
	ids := make([]string, 0)
	for id := range got {
		if _, ok := mc.Docs[id]; !ok {
			ids = append(ids, id)
		}
	}
	sort.Strings(ids)
	for _, id := range ids {
		diffs = append(diffs, fmt.Sprintf("unexpected id %s: %s", id, val.String(got[id])))
		typeOnly = false
	}
	if len(diffs) == 0 {
		return "", false, nil
	}
	if len(diffs) > 4 {
		diffs = append(diffs[:4], fmt.Sprintf("... %d more", len(diffs)-4))
	}
	return strings.Join(diffs, "; "), typeOnly, nil
}

// compareAll compares every collection and the catalog with the model. target
// is the collection the current op was aimed at ("" none).
func (e *Exec) compareAll(target string, targetProps []string, what string) {
	if e.V != nil {
		return
	}
	e.checked("full-state")
	var names []string
	err := e.invoke(false, func() error {
		var er error
		names, er = e.DB.ListCollections()
		return er
	})
	if err != nil {
		e.fail([]string{"C13"}, "C13/list-error", fmt.Sprintf("ListCollections failed: %v", err), nil)
		return
	}
	sort.Strings(names)
	if !sameStrings(names, e.M.CollNames()) {
		e.fail([]string{"C13"}, "C13/catalog", fmt.Sprintf("after %s: ListCollections = %q, model has %q", what, names, e.M.CollNames()), nil)
		return
	}
	for _, name := range e.M.CollNames() {
		diff, typeOnly, err := e.compareColl(name)
		if e.V != nil {
			return
		}
		if err != nil {
			e.fail([]string{"C01", "C13", "C11"}, "C01/readback-error", fmt.Sprintf("after %s: reading collection %q failed: %v", what, name, err), map[string]string{"err": firstLine(err.Error())})
			return
		}
		if diff != "" {
			feats := e.collFeatures(name)
			switch {
			case typeOnly:
				e.fail([]string{"C11"}, "C11/type-or-zone", fmt.Sprintf("after %s: collection %q: values equal but Go type/zone differs: %s", what, name, diff), feats)
			case name == target:
				e.fail(withProps(targetProps, "C11", "C01"), "state-divergence", fmt.Sprintf("after %s: collection %q differs from the model: %s", what, name, diff), feats)
			default:
				props := []string{"C13", "C12"}
				if e.cur != nil && (e.cur.K == "DropCollection" || e.cur.K == "DropIndex") {
					props = append(props, "C06") // a drop must never disturb another collection or index
				}
				e.fail(props, "C13/isolation", fmt.Sprintf("after %s on %q: OTHER collection %q changed: %s", what, target, name, diff), feats)
			}
			return
		}
		// index catalog
		var infos []string
		err = e.invoke(false, func() error {
			li, er := e.DB.ListIndexes(name)
			for _, i := range li {
				infos = append(infos, i.Field)
			}
			return er
		})
		if e.V != nil {
			return
		}
		sort.Strings(infos)
		if err != nil || !sameStrings(infos, e.M.Colls[name].IndexFields()) {
			props := []string{"C14"}
			if name != target {
				props = append(props, "C13")
			}
			e.fail(props, "C14/catalog", fmt.Sprintf("after %s: ListIndexes(%q) = %q err=%v, model has %q", what, name, infos, err, e.M.Colls[name].IndexFields()), nil)
			return
		}
	}
}

func (e *Exec) collFeatures(name string) map[string]string {
	f := map[string]string{}
	if c := e.M.Colls[name]; c != nil {
		if len(c.Indexes) > 0 {
			f["indexed"] = "1"
			f["indexes"] = fmt.Sprint(len(c.Indexes))
		} else {
			f["indexed"] = "0"
		}
	}
	return f
}

// ---- query result checking -----------------------------------------------------------

func critOps(c *model.Crit) string {
	set := map[string]bool{}
	c.Walk(func(n *model.Crit) { set[n.Op] = true })
	ks := make([]string, 0, len(set))
	for k := range set {
		ks = append(ks, k)
	}
	sort.Strings(ks)
	return strings.Join(ks, ",")
}

func (e *Exec) queryFeatures(q *model.Query) map[string]string {
	f := e.collFeatures(q.Coll)
	c := e.M.Colls[q.Coll]
	if c == nil {
		return f
	}
	onCrit, refOnIdx := false, false
	q.Crit.Walk(func(n *model.Crit) {
		if n.F != "" && c.Indexes[n.F] {
			onCrit = true
			if n.A != nil && n.A.RefStyle != 0 {
				refOnIdx = true
			}
		}
	})
	if onCrit {
		f["idxOnCrit"] = "1"
	}
	if refOnIdx {
		f["refOnIdx"] = "1"
	}
	if q.Crit != nil {
		f["critOps"] = critOps(q.Crit)
	}
	so := q.EffSort()
	if len(so) > 0 {
		f["sortKeys"] = fmt.Sprint(len(so))
		if c.Indexes[so[0].Field] {
			f["idxOnSort"] = "1"
		}
		if so[0].Dir < 0 {
			f["desc"] = "1"
		}
	}
	if q.EffSkip() > 0 || q.EffLimit() >= 0 {
		f["window"] = "1"
	}
	return f
}

func idxProps(base []string, feats map[string]string) []string {
	if feats["indexed"] == "1" {
		out := append(append([]string{}, base...), "C02")
		if feats["indexes"] != "" && feats["indexes"] != "1" {
			out = append(out, "C14") // several indexes: results through one must not depend on the others
		}
		return out
	}
	return base
}

type queryResult struct {
	ids    []string
	tuples []string
	err    error
}

// checkFindAll validates a FindAll result against the model.
func (e *Exec) checkFindAll(q *model.Query, docs []*document.Document) queryResult {
	c := e.M.Colls[q.Coll]
	feats := e.queryFeatures(q)
	res := queryResult{}
	e.checked("findall")
	matching := c.Matching(q.Crit)
	matchSet := map[string]bool{}
	for _, id := range matching {
		matchSet[id] = true
	}
	seen := map[string]bool{}
	sortOpts := q.EffSort()
	skip, limit := q.EffSkip(), q.EffLimit()
	windowed := skip > 0 || limit >= 0
	var tuples []model.KeyTuple
	for _, d := range docs {
		id := d.ObjectId()
		res.ids = append(res.ids, id)
		md, live := c.Docs[id]
		if !live {
			e.fail(idxProps([]string{"C01"}, feats), "C01/phantom", fmt.Sprintf("FindAll(%s) returned id %q which is not a live document", (&Op{Q: q}).Brief(), id), feats)
			return res
		}
		if seen[id] {
			e.fail(idxProps([]string{"C01"}, feats), "C01/duplicate", fmt.Sprintf("FindAll(%s) returned id %s twice", (&Op{Q: q}).Brief(), id), feats)
			return res
		}
		seen[id] = true
		got := DocFromClover(d)
		if !val.Equal(md, got) {
			if onlyTyping(md, got) {
				e.fail([]string{"C11"}, "C11/type-or-zone", "FindAll: "+describeDocDiff(id, md, got), feats)
			} else {
				e.fail([]string{"C01", "C11"}, "C01/stale-value", "FindAll: "+describeDocDiff(id, md, got), feats)
			}
			return res
		}
		if !matchSet[id] {
			e.fail(idxProps([]string{"C01"}, feats), "C01/nonmatching", fmt.Sprintf("FindAll(%s) returned %s which does not satisfy the criteria", (&Op{Q: q}).Brief(), val.String(md)), feats)
			return res
		}
		if len(sortOpts) > 0 {
			tuples = append(tuples, model.TupleOf(md, sortOpts))
		}
	}
	if len(docs) > 0 {
		e.probe("findall-nonempty")
	}
	e.obs("FindAll ids in order: %s", strings.Join(res.ids, ","))
	if !windowed {
		if len(docs) != len(matching) {
			var missing []string
			for _, id := range matching {
				if !seen[id] {
					missing = append(missing, val.String(c.Docs[id]))
				}
			}
			if len(missing) > 3 {
				missing = missing[:3]
			}
			e.fail(idxProps([]string{"C01"}, feats), "C01/missing", fmt.Sprintf("FindAll(%s) returned %d of %d matching documents; missing e.g. %v", (&Op{Q: q}).Brief(), len(docs), len(matching), missing), feats)
			return res
		}
	} else {
		want := model.WindowSize(len(matching), skip, limit)
		e.checked("window")
		if len(docs) != want {
			e.fail(idxProps([]string{"C08"}, feats), "C08/window-count", fmt.Sprintf("FindAll(%s): %d documents match, skip=%d limit=%d must give %d, got %d", (&Op{Q: q}).Brief(), len(matching), skip, limit, want, len(docs)), feats)
			return res
		}
		if want > 0 && want < len(matching) {
			e.probe("window-proper")
		}
	}
	if len(sortOpts) > 0 {
		e.checked("sort")
		// (a) validity over all pairs
		n := len(tuples)
		pairs := true
		if n > 400 {
			pairs = false
		}
		for i := 0; i < n && e.V == nil; i++ {
			jmax := n
			if !pairs {
				jmax = i + 2
				if jmax > n {
					jmax = n
				}
			}
			for j := i + 1; j < jmax; j++ {
				if model.DefinitelyAfter(tuples[i], tuples[j], sortOpts) {
					e.fail(idxProps([]string{"C08"}, feats), "C08/order", fmt.Sprintf("FindAll(%s): position %d has sort key (%s) which must come after position %d's (%s)", (&Op{Q: q}).Brief(), i, model.TupleClassKey(tuples[i]), j, model.TupleClassKey(tuples[j])), feats)
					return res
				}
			}
		}
		// (b) key-tuple sequence equals the model's window
		got := make([]string, n)
		for i := range tuples {
			got[i] = model.TupleClassKey(tuples[i])
		}
		res.tuples = got
		w1 := model.Window(model.SortedTuples(c, matching, sortOpts, false), skip, limit)
		if strings.Join(got, "\x00") != strings.Join(w1, "\x00") {
			w2 := model.Window(model.SortedTuples(c, matching, sortOpts, true), skip, limit)
			if strings.Join(got, "\x00") != strings.Join(w2, "\x00") {
				e.fail(idxProps([]string{"C08"}, feats), "C08/window", fmt.Sprintf("FindAll(%s): sort-key sequence %v differs from the expected window %v", (&Op{Q: q}).Brief(), clip(got), clip(w1)), feats)
				return res
			}
		}
		if hasTies(w1) {
			e.probe("sort-with-ties")
		}
		if feats["idxOnSort"] == "1" {
			e.probe("sort-on-indexed-field")
		}
		if feats["desc"] == "1" {
			e.probe("sort-desc")
		}
	}
	return res
}

func hasTies(seq []string) bool {
	for i := 1; i < len(seq); i++ {
		if seq[i] == seq[i-1] {
			return true
		}
	}
	return false
}

func clip(s []string) []string {
	if len(s) > 12 {
		return append(append([]string{}, s[:12]...), "...")
	}
	return s
}

// ---- main dispatcher ---------------------------------------------------------------------

// Step executes one op on clover and on the model and checks every applicable rule.
// It returns false when the run must stop (violation).
func (e *Exec) Step(i int, op *Op) bool {
	e.opIdx, e.cur = i, op
	e.OpHitCapacity = false
	traceOp(i, op)
	e.Stats.Ops[op.K]++
	if len(op.Colls) > 0 {
		e.stepTwins(op)
	} else {
		e.stepOne(op)
	}
	if e.Ctl.Crashed && e.V == nil {
		// a crash hit an operation that has no crash handling of its own (a read)
		e.restartAfterCrash()
	}
	if e.V == nil && e.Opt.AuditEvery > 0 && !e.closed && (i+1)%e.Opt.AuditEvery == 0 && op.Note != "noaudit" {
		e.plainAudit = true
		e.Audit()
		e.plainAudit = false
	}
	if e.Opt.TraceStates {
		e.States = append(e.States, e.M.Clone())
	}
	if e.V == nil {
		e.Stats.States[rng.HashString(e.M.Fingerprint())] = struct{}{}
	}
	if e.Acks != nil && e.V == nil {
		e.Acks(i)
	}
	e.cur = nil
	return e.V == nil
}

func (e *Exec) stepTwins(op *Op) {
	type tw struct {
		coll string
		res  queryResult
		n    int
	}
	var results []tw
	for _, c := range op.Colls {
		sub := *op
		sub.Colls = nil
		sub.Coll = c
		if op.Q != nil {
			q := *op.Q
			q.Coll = c
			sub.Q = &q
		}
		e.cur = &sub
		r := e.stepOne(&sub)
		if e.V != nil {
			return
		}
		results = append(results, tw{c, r, len(r.ids)})
	}
	e.cur = op
	if op.Q == nil {
		return
	}
	e.checked("twin")
	// pairwise comparison of twins
	q := op.Q
	deterministicSet := !(q.EffSkip() > 0 || q.EffLimit() >= 0)
	for i := 1; i < len(results); i++ {
		a, b := results[0], results[i]
		if e.M.Colls[a.coll] == nil || e.M.Colls[b.coll] == nil {
			continue
		}
		feats := map[string]string{"twinA": fmt.Sprint(e.M.Colls[a.coll].IndexFields()), "twinB": fmt.Sprint(e.M.Colls[b.coll].IndexFields())}
		if (a.res.err == nil) != (b.res.err == nil) {
			e.fail([]string{"C02"}, "C02/twin-error", fmt.Sprintf("%s: twin %q (indexes %v) err=%v, twin %q (indexes %v) err=%v", op.Brief(), a.coll, e.M.Colls[a.coll].IndexFields(), a.res.err, b.coll, e.M.Colls[b.coll].IndexFields(), b.res.err), feats)
			return
		}
		if a.n != b.n {
			e.fail([]string{"C02"}, "C02/twin-count", fmt.Sprintf("%s: twin %q (indexes %v) returned %d, twin %q (indexes %v) returned %d", op.Brief(), a.coll, e.M.Colls[a.coll].IndexFields(), a.n, b.coll, e.M.Colls[b.coll].IndexFields(), b.n), feats)
			return
		}
		if deterministicSet {
			sa, sb := append([]string{}, a.res.ids...), append([]string{}, b.res.ids...)
			sort.Strings(sa)
			sort.Strings(sb)
			if strings.Join(sa, ",") != strings.Join(sb, ",") {
				e.fail([]string{"C02"}, "C02/twin-set", fmt.Sprintf("%s: twins %q and %q selected different documents", op.Brief(), a.coll, b.coll), feats)
				return
			}
		}
		if len(q.EffSort()) > 0 && strings.Join(a.res.tuples, "\x00") != strings.Join(b.res.tuples, "\x00") {
			e.fail([]string{"C02"}, "C02/twin-order", fmt.Sprintf("%s: twins %q and %q returned different sort-key sequences", op.Brief(), a.coll, b.coll), feats)
			return
		}
	}
}

// idValid reports whether s is a canonical UUID.
func idValid(s string) bool {
	u, err := uuid.FromString(s)
	return err == nil && u.String() == s
}

func idAcceptable(v interface{}) bool {
	s, ok := v.(string)
	if !ok {
		return false
	}
	_, err := uuid.FromString(s)
	return err == nil
}

func (e *Exec) noteIDs(ids ...string) {
	for _, id := range ids {
		e.usedIDs[id] = struct{}{}
	}
}

func (e *Exec) stepOne(op *Op) (qr queryResult) {
	if e.closed && op.K != "AfterClose" && op.K != "Reopen" {
		return
	}
	mc := e.M.Colls[op.Coll]
	if op.Q != nil {
		mc = e.M.Colls[op.Q.Coll]
	}
	needSnap := op.Fault > 0
	switch op.K {

	case "CreateCollection":
		want := ""
		if mc != nil {
			want = "ErrCollectionExist"
		}
		before := e.snap(want != "" || needSnap)
		err := e.invoke(true, func() error { return e.DB.CreateCollection(op.Coll) })
		switch e.judge(err, want, []string{"C13"}, op.Brief()) {
		case outOK:
			e.M.Colls[op.Coll] = &model.Coll{Docs: map[string]model.Doc{}, Indexes: map[string]bool{}}
			e.afterWrite(op.Coll, []string{"C13", "C06"}, op.Brief())
		case outFailed, outCapacity:
			e.noEffect(before, op.Brief(), []string{"C13"})
		case outCrashed:
			e.settleCrash(op, func() {
				e.M.Colls[op.Coll] = &model.Coll{Docs: map[string]model.Doc{}, Indexes: map[string]bool{}}
			})
		}

	case "DropCollection":
		want := ""
		if mc == nil {
			want = "ErrCollectionNotExist"
		}
		before := e.snap(want != "" || needSnap)
		if mc != nil && len(mc.Docs) > 0 {
			e.probe("drop-nonempty")
			if len(mc.Indexes) > 0 {
				e.probe("drop-nonempty-indexed")
			}
		}
		err := e.invoke(true, func() error { return e.DB.DropCollection(op.Coll) })
		switch e.judge(err, want, []string{"C13", "C03"}, op.Brief()) {
		case outOK:
			delete(e.M.Colls, op.Coll)
			e.afterWrite("", []string{"C03", "C13", "C06"}, op.Brief())
			e.checkDropResidue(op)
		case outFailed, outCapacity:
			e.noEffect(before, op.Brief(), []string{"C13"})
		case outCrashed:
			e.settleCrash(op, func() { delete(e.M.Colls, op.Coll) })
		}

	case "HasCollection":
		var has bool
		err := e.invoke(true, func() error {
			var er error
			has, er = e.DB.HasCollection(op.Coll)
			return er
		})
		if e.judge(err, "", []string{"C13"}, op.Brief()) == outOK {
			e.checked("catalog")
			if has != (mc != nil) {
				e.fail([]string{"C13"}, "C13/has-collection", fmt.Sprintf("HasCollection(%q) = %v, model says %v", op.Coll, has, mc != nil), nil)
			}
		}

	case "ListCollections":
		var names []string
		err := e.invoke(true, func() error {
			var er error
			names, er = e.DB.ListCollections()
			return er
		})
		if e.judge(err, "", []string{"C13"}, op.Brief()) == outOK {
			e.checked("catalog")
			sort.Strings(names)
			if !sameStrings(names, e.M.CollNames()) {
				e.fail([]string{"C13"}, "C13/catalog", fmt.Sprintf("ListCollections = %q, model has %q", names, e.M.CollNames()), nil)
			}
		}

	case "Insert", "InsertOne", "Save":
		e.stepInsert(op, mc)

	case "FindAll":
		if mc == nil {
			_, err := e.primaryFindAll(op)
			qr.err = err
			e.judge(err, "ErrCollectionNotExist", []string{"C13"}, op.Brief())
			return
		}
		docs, err := e.primaryFindAll(op)
		qr.err = err
		feats := e.queryFeatures(op.Q)
		if e.judge(err, "", idxProps([]string{"C01"}, feats), op.Brief()) == outOK {
			if e.Ctl.GetsUnderCursor > 0 {
				e.probe("query-served-by-index")
			}
			if e.Ctl.ReverseCursors > 0 {
				e.probe("reverse-cursor")
			}
			if e.Ctl.WriteCommits > 0 {
				e.fail([]string{"C09"}, "C09/read-wrote", fmt.Sprintf("%s committed a transaction with %d store writes", op.Brief(), e.Ctl.Writes), nil)
				return
			}
			qr = e.checkFindAll(op.Q, docs)
		}

	case "Derived":
		e.stepDerived(op, mc)

	case "FindById":
		var doc *document.Document
		err := e.invoke(true, func() error {
			var er error
			doc, er = e.DB.FindById(op.Coll, op.ID)
			return er
		})
		want := ""
		if mc == nil {
			want = "ErrCollectionNotExist"
		}
		if e.judge(err, want, []string{"C09", "C12"}, op.Brief()) == outOK {
			e.checkFindById(op.Coll, op.ID, doc)
		}

	case "DeleteById":
		want := ""
		if mc == nil {
			want = "ErrCollectionNotExist"
		}
		before := e.snap(want != "" || needSnap)
		if mc != nil {
			if _, ok := mc.Docs[op.ID]; !ok {
				e.probe("delete-absent-id")
			}
		}
		err := e.invoke(true, func() error { return e.DB.DeleteById(op.Coll, op.ID) })
		switch e.judge(err, want, []string{"C01"}, op.Brief()) {
		case outOK:
			delete(mc.Docs, op.ID)
			e.afterWrite(op.Coll, []string{"C01", "C12"}, op.Brief())
		case outFailed, outCapacity:
			e.noEffect(before, op.Brief(), nil)
		case outCrashed:
			e.settleCrash(op, func() { delete(mc.Docs, op.ID) })
		}

	case "UpdateById", "ReplaceById":
		e.stepUpdateById(op, mc)

	case "Update", "UpdateFunc", "Delete":
		e.stepBulk(op, mc)

	case "CreateIndex":
		want := ""
		if mc == nil {
			want = "ErrCollectionNotExist"
		} else if mc.Indexes[op.Field] {
			want = "ErrIndexExist"
		}
		before := e.snap(want != "" || needSnap)
		if mc != nil && want == "" {
			if len(mc.Docs) > 0 {
				e.probe("index-created-after-data")
			} else {
				e.probe("index-created-before-data")
			}
			for f := range mc.Indexes {
				if f != op.Field && (strings.HasPrefix(f, op.Field) || strings.HasPrefix(op.Field, f)) {
					e.probe("prefix-related-indexes-coexist")
				}
			}
		}
		err := e.invoke(true, func() error { return e.DB.CreateIndex(op.Coll, op.Field) })
		switch e.judge(err, want, []string{"C14"}, op.Brief()) {
		case outOK:
			mc.Indexes[op.Field] = true
			e.afterWrite(op.Coll, []string{"C14", "C06"}, op.Brief())
		case outFailed, outCapacity:
			e.noEffect(before, op.Brief(), []string{"C14"})
		case outCrashed:
			e.settleCrash(op, func() { mc.Indexes[op.Field] = true })
		}

	case "DropIndex":
		want := ""
		if mc == nil {
			want = "ErrCollectionNotExist"
		} else if !mc.Indexes[op.Field] {
			want = "ErrIndexNotExist"
		}
		before := e.snap(want != "" || needSnap)
		err := e.invoke(true, func() error { return e.DB.DropIndex(op.Coll, op.Field) })
		switch e.judge(err, want, []string{"C14"}, op.Brief()) {
		case outOK:
			delete(mc.Indexes, op.Field)
			if len(mc.Indexes) > 0 {
				e.probe("drop-index-with-sibling")
			}
			e.afterWrite(op.Coll, []string{"C14", "C06"}, op.Brief())
		case outFailed, outCapacity:
			e.noEffect(before, op.Brief(), []string{"C14"})
		case outCrashed:
			e.settleCrash(op, func() { delete(mc.Indexes, op.Field) })
		}

	case "HasIndex":
		var has bool
		err := e.invoke(true, func() error {
			var er error
			has, er = e.DB.HasIndex(op.Coll, op.Field)
			return er
		})
		want := ""
		if mc == nil {
			want = "ErrCollectionNotExist"
		}
		if e.judge(err, want, []string{"C14"}, op.Brief()) == outOK {
			e.checked("index-catalog")
			if has != mc.Indexes[op.Field] {
				e.fail([]string{"C14"}, "C14/has-index", fmt.Sprintf("HasIndex(%q,%q) = %v, model says %v", op.Coll, op.Field, has, mc.Indexes[op.Field]), nil)
			}
		}

	case "ListIndexes":
		var fields []string
		err := e.invoke(true, func() error {
			li, er := e.DB.ListIndexes(op.Coll)
			for _, i := range li {
				fields = append(fields, i.Field)
			}
			return er
		})
		want := ""
		if mc == nil {
			want = "ErrCollectionNotExist"
		}
		if e.judge(err, want, []string{"C14"}, op.Brief()) == outOK {
			e.checked("index-catalog")
			sort.Strings(fields)
			if !sameStrings(fields, mc.IndexFields()) {
				e.fail([]string{"C14"}, "C14/catalog", fmt.Sprintf("ListIndexes(%q) = %q, model has %q", op.Coll, fields, mc.IndexFields()), nil)
			}
		}

	case "Export":
		e.stepExport(op, mc)
	case "Import":
		e.stepImport(op)
	case "CreateCollectionByQuery":
		e.stepCreateByQuery(op)

	case "Reopen":
		if !e.Be.CanReopen() {
			return
		}
		e.Ctl.ClearPlan()
		e.Ctl.BeginOp()
		if !e.closed {
			var err error
			func() {
				defer func() {
					if r := recover(); r != nil {
						e.fail([]string{"C20"}, "C20/panic", fmt.Sprintf("Close panicked: %v", r), nil)
					}
				}()
				callBegin()
				defer callEnd()
				err = e.DB.Close()
			}()
			if e.V != nil {
				return
			}
			if err != nil {
				e.fail([]string{"C05"}, "C05/close-error", fmt.Sprintf("Close failed: %v", err), nil)
				return
			}
		}
		if err := e.open(); err != nil {
			e.fail([]string{"C05"}, "C05/reopen-error", fmt.Sprintf("reopen failed: %v", err), nil)
			return
		}
		e.probe("clean-reopen")
		e.compareAllAs([]string{"C05"}, "C05/reopen-state", "clean close and reopen")
		if e.V == nil {
			e.Audit()
			if e.V != nil && e.V.Rule != "C20/panic" {
				// indexes, counts and catalog must be intact after a reopen, without any rebuild
				e.V.Props = append([]string{"C05"}, e.V.Props...)
				e.V.Rule = "C05/reopen-audit(" + e.V.Rule + ")"
			}
		}

	case "CrashRestart":
		mb, ok := e.Be.(*MemBackend)
		if !ok {
			return
		}
		mb.Cur.Crash()
		e.Ctl.ResetCrash()
		if err := e.open(); err != nil {
			e.fail([]string{"C05"}, "C05/reopen-error", fmt.Sprintf("reopen failed: %v", err), nil)
			return
		}
		e.probe("crash-restart-idle")
		e.compareAllAs([]string{"C05"}, "C05/crash-state", "crash between operations and reopen")
		if e.V == nil {
			e.Audit()
			if e.V != nil && e.V.Rule != "C20/panic" {
				e.V.Props = append([]string{"C05"}, e.V.Props...)
				e.V.Rule = "C05/reopen-audit(" + e.V.Rule + ")"
			}
		}

	case "AfterClose":
		e.stepAfterClose(op)
	case "DocAPI":
		e.stepDocAPI(op)

	default:
		panic("exec: unknown op kind " + op.K)
	}
	return
}

func (e *Exec) primaryFindAll(op *Op) (docs []*document.Document, err error) {
	cq := QueryToClover(op.Q)
	err = e.invoke(true, func() error {
		var er error
		docs, er = e.DB.FindAll(cq)
		return er
	})
	return
}

// compareAllAs runs compareAll and re-labels any finding.
func (e *Exec) compareAllAs(props []string, rule, what string) {
	if e.V != nil {
		return
	}
	e.compareAll("", nil, what)
	if e.V != nil && e.V.Rule != "C20/panic" && e.V.Rule != "C11/type-or-zone" {
		e.V.Props = append(props, e.V.Props...)
		e.V.Rule = rule + "(" + e.V.Rule + ")"
	}
}

// afterWrite is run after every successful write op.
func (e *Exec) afterWrite(target string, targetProps []string, what string) {
	if e.V != nil {
		return
	}
	if e.Ctl.Commits > 1 || e.Ctl.WriteCommits > 1 {
		e.probe("op-with-multiple-commits")
	}
	if e.Opt.FullCompare {
		e.compareAll(target, targetProps, what)
	} else if target != "" {
		diff, typeOnly, err := e.compareColl(target)
		if e.V != nil {
			return
		}
		if err != nil {
			e.fail(append(append([]string{}, targetProps...), "C11"), "C01/readback-error", fmt.Sprintf("after %s: reading %q failed: %v", what, target, err), nil)
		} else if diff != "" {
			if typeOnly {
				e.fail([]string{"C11"}, "C11/type-or-zone", fmt.Sprintf("after %s: %s", what, diff), e.collFeatures(target))
			} else {
				e.fail(withProps(targetProps, "C11", "C01"), "state-divergence", fmt.Sprintf("after %s: collection %q differs from the model: %s", what, target, diff), e.collFeatures(target))
			}
		}
	}
}

// settleCrash handles a simulated crash during a write op: restart, then the
// state must be the model's pre-state or its post-state (apply), nothing else.
func (e *Exec) settleCrash(op *Op, apply func()) {
	mb, ok := e.Be.(*MemBackend)
	if !ok {
		panic("in-process crash on a real backend")
	}
	e.Stats.Fired["crash-"+e.Ctl.CrashKind.String()]++
	if e.Ctl.WritesBeforeFire > 0 {
		e.probe("crash-with-writes-in-flight")
	}
	if e.Ctl.CrashKind == wrap.KCommit && e.cur.CrashPost {
		e.probe("crash-after-commit")
	}
	mb.Cur.Crash()
	e.Ctl.ResetCrash()
	if err := e.open(); err != nil {
		e.fail([]string{"C05"}, "C05/reopen-error", fmt.Sprintf("reopen after crash failed: %v", err), nil)
		return
	}
	if e.lastWant != "" && e.lastWant != "maybe" {
		// the operation was going to fail anyway: its post-state is its pre-state
		apply = func() {}
	}
	pre := e.M.Clone()
	// try "entirely absent"
	e.compareAll("", nil, "crash")
	if e.V == nil {
		e.probe("crash-op-absent")
		e.Audit()
		e.relabelCrash(op)
		return
	}
	firstV := e.V
	e.V = nil
	e.inCrashSettle = true
	apply()
	e.inCrashSettle = false
	e.compareAll("", nil, "crash")
	if e.V == nil {
		e.probe("crash-op-present")
		e.Audit()
		e.relabelCrash(op)
		return
	}
	secondV := e.V
	e.V = nil
	e.M = pre
	e.fail([]string{"C05"}, "C05/crash-atomicity", fmt.Sprintf("%s crashed at %s call #%d (after=%v); after restart the state is neither the pre-state (%s) nor the post-state (%s)", op.Brief(), e.Ctl.CrashKind, op.Crash, op.CrashPost, firstV.Msg, secondV.Msg), map[string]string{"crashKind": e.Ctl.CrashKind.String()})
}

func (e *Exec) restartAfterCrash() {
	mb, ok := e.Be.(*MemBackend)
	if !ok {
		panic("in-process crash on a real backend")
	}
	e.Stats.Fired["crash-"+e.Ctl.CrashKind.String()]++
	mb.Cur.Crash()
	e.Ctl.ResetCrash()
	if err := e.open(); err != nil {
		e.fail([]string{"C05"}, "C05/reopen-error", fmt.Sprintf("reopen after crash failed: %v", err), nil)
		return
	}
	e.compareAllAs([]string{"C05"}, "C05/crash-state", "crash during a read operation and reopen")
}

func (e *Exec) relabelCrash(op *Op) {
	if e.V != nil && e.V.Rule != "C20/panic" {
		e.V.Props = append([]string{"C05"}, e.V.Props...)
		e.V.Rule = "C05/crash-consistency(" + e.V.Rule + ")"
	}
}

func (e *Exec) checkFindById(coll, id string, doc *document.Document) {
	e.checked("findbyid")
	md, live := e.M.Colls[coll].Docs[id]
	switch {
	case doc == nil && live:
		e.fail([]string{"C09", "C01"}, "C09/findbyid-missing", fmt.Sprintf("FindById(%q,%s) = nil but the document is live", coll, id), e.collFeatures(coll))
	case doc != nil && !live:
		e.fail([]string{"C09", "C12"}, "C09/findbyid-phantom", fmt.Sprintf("FindById(%q,%s) returned %s but no such document is live", coll, id, val.String(DocFromClover(doc))), e.collFeatures(coll))
	case doc != nil:
		got := DocFromClover(doc)
		if gid, _ := got["_id"].(string); gid != id {
			e.fail([]string{"C12"}, "C12/key-id-mismatch", fmt.Sprintf("FindById(%q,%s) returned a document whose _id is %v", coll, id, got["_id"]), nil)
		} else if !val.Equal(md, got) {
			if onlyTyping(md, got) {
				e.fail([]string{"C11"}, "C11/type-or-zone", "FindById: "+describeDocDiff(id, md, got), nil)
			} else {
				e.fail([]string{"C01", "C09", "C11"}, "C01/stale-value", "FindById: "+describeDocDiff(id, md, got), nil)
			}
		}
	}
}

// checkDropResidue: after a drop, re-creating the name must give an empty
// collection without indexes (checked through the audit's key-set rebuild as
// well; this is the API-level statement).
func (e *Exec) checkDropResidue(op *Op) {
	if e.V != nil {
		return
	}
	if len(e.M.Colls) == 0 {
		s := e.snap(true)
		if s.ok {
			e.checked("empty-store")
			if n := len(s.keys()); n != 0 {
				e.plainAudit = true
				defer func() { e.plainAudit = false }()
				e.auditFail([]string{"C06", "C03"}, "C06/residue-after-drop", fmt.Sprintf("every collection was dropped but %d keys remain, e.g. %s", n, showKeys(s.keys())), nil)
			} else {
				e.probe("all-dropped-store-empty")
			}
		}
	}
}

func tempName(dir, f string) string { return filepath.Join(dir, f) }

func fileExists(p string) bool { _, err := os.Stat(p); return err == nil }

// onlyTyping reports whether got differs from want only in Go types / zones
// (or carries a type outside the documented domain): a typing violation rather
// than a wrong value.
func onlyTyping(want, got interface{}) bool {
	if _, foreign := val.Foreign(got); foreign {
		return true
	}
	return val.Compare(want, got) == 0
}

// opProps: the properties whose statement promises a result for an operation
// kind; a panic in such a call violates them as well as the no-panic property.
var opProps = map[string][]string{
	"CreateCollection": {"C13"}, "DropCollection": {"C13", "C03"}, "HasCollection": {"C13"}, "ListCollections": {"C13"},
	"CreateIndex": {"C14"}, "DropIndex": {"C14"}, "HasIndex": {"C14"}, "ListIndexes": {"C14"},
	"FindAll": {"C01"}, "Derived": {"C09"}, "FindById": {"C09"},
	"Insert": {"C12"}, "InsertOne": {"C12"}, "Save": {"C12"}, "ReplaceById": {"C12"}, "UpdateById": {"C12"},
	"Update": {"C03"}, "UpdateFunc": {"C03"}, "Delete": {"C03"},
	"Export": {"C19"}, "Import": {"C19"},
}

func sameStrings(a, b []string) bool {
	if len(a) != len(b) {
		return false
	}
	for i := range a {
		if a[i] != b[i] {
			return false
		}
	}
	return true
}
