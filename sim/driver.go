package sim

import (
	"encoding/json"
	"flag"
	"fmt"
	"os"
	"os/exec"
	"path/filepath"
	"sort"
	"strconv"
	"strings"
	"sync"
	"time"

	"verif/sim/rng"
)

// Job is one slice of a check: an engine, a workload mode, candidate backends
// and fault configurations, and how many runs per tier.
type Job struct {
	Engine   string
	Mode     string
	Backends []string
	Faults   []string
	Quick    int
	Thorough int
	Opt      ExecOpt
	Params   map[string]string
}

func (j *Job) n(tier string) int {
	if tier == "thorough" {
		return j.Thorough
	}
	return j.Quick
}

// EngineFn executes run number idx of a job.
type EngineFn func(job *Job, prop string, seed, idx uint64) *RunOutcome

var engines = map[string]EngineFn{
	"hist": func(job *Job, prop string, seed, idx uint64) *RunOutcome {
		plan := &HistPlan{Prop: prop, Mode: job.Mode, Backends: job.Backends, Faults: job.Faults, OptFn: func(be string) ExecOpt {
			o := job.Opt
			if !isMemName(be) && o.AuditEvery == 1 {
				o.AuditEvery = 5
			}
			return o
		}}
		return GenerateAndRun(plan, seed, idx)
	},
}

// workerResult is what a worker process hands back.
type workerResult struct {
	Runs       int              `json:"runs"`
	Evals      int              `json:"evals"`
	Ops        int              `json:"ops"`
	StoreCalls int              `json:"storeCalls"`
	Stats      *statsJSON       `json:"stats"`
	Hashes     []uint64         `json:"hashes"`     // ops hash of every non-trivial run
	Violations []*RunFile       `json:"violations"` // run files with .Violation set
	ViolCount  map[string]int   `json:"violCount"`
	Collateral map[string]int   `json:"collateral"`
	Samples    [][]string       `json:"samples"`
	ByBackend  map[string]int   `json:"byBackend"`
	ByEngine   map[string]int   `json:"byEngine"`
	Trouble    []string         `json:"trouble"`
	Extra      map[string]int64 `json:"extra"`
}

type statsJSON struct {
	Ops    map[string]int `json:"ops"`
	Probes map[string]int `json:"probes"`
	Checks map[string]int `json:"checks"`
	Fired  map[string]int `json:"fired"`
	States []uint64       `json:"states"`
}

func statsToJSON(s *Stats) *statsJSON {
	j := &statsJSON{Ops: s.Ops, Probes: s.Probes, Checks: s.Checks, Fired: s.Fired}
	for k := range s.States {
		j.States = append(j.States, k)
	}
	return j
}

func opsHash(rf *RunFile) uint64 {
	b, _ := json.Marshal(struct {
		B string
		O []Op
		C [][]Op
		S []int
		X map[string]string
	}{rf.Backend, rf.Ops, rf.Clients, rf.Schedule, rf.Cfg})
	return rng.HashString(string(b))
}

func violKey(v *Violation) string {
	fs := make([]string, 0, len(v.Features))
	for k, x := range v.Features {
		fs = append(fs, k+"="+x)
	}
	sort.Strings(fs)
	return v.Rule + "|" + strings.Join(fs, ",")
}

// nontrivial: did the run evaluate at least one oracle clause that belongs to the property?
func nontrivial(prop string, st *Stats) bool {
	fams := propFamilies[prop]
	for _, f := range fams {
		if st.Checks[f] > 0 {
			return true
		}
	}
	return false
}

// WorkerMain runs one shard of a check and writes a workerResult.
func WorkerMain(args []string) int {
	fs := flag.NewFlagSet("worker", flag.ExitOnError)
	prop := fs.String("prop", "", "")
	tier := fs.String("tier", "quick", "")
	seed := fs.Uint64("seed", 1, "")
	shard := fs.Int("shard", 0, "")
	of := fs.Int("of", 1, "")
	out := fs.String("out", "", "")
	budget := fs.Duration("budget", 0, "stop starting new runs after this long")
	fs.Parse(args)
	limitAddressSpace()
	marker := newRunMarker(*out)
	jobs := JobsFor(*prop, *tier)
	res := &workerResult{ViolCount: map[string]int{}, Collateral: map[string]int{}, ByBackend: map[string]int{}, ByEngine: map[string]int{}, Extra: map[string]int64{}}
	agg := NewStats()
	perKey := map[string]int{}
	start := time.Now()
	// the work of this shard: every job progresses at the same relative pace, so that a
	// budget that runs out cuts all jobs proportionally instead of dropping the later ones
	type workItem struct {
		ji   int
		idx  uint64
		frac float64
	}
	var work []workItem
	gidx := uint64(0)
	for ji := range jobs {
		job := &jobs[ji]
		if engines[job.Engine] == nil {
			fmt.Fprintln(os.Stderr, "no engine", job.Engine)
			return 2
		}
		n := job.n(*tier)
		if (job.Params["race"] == "1") != raceBuild() {
			gidx += uint64(n)
			continue
		}
		for i := 0; i < n; i++ {
			idx := gidx
			gidx++
			if int(idx)%*of != *shard {
				continue
			}
			work = append(work, workItem{ji, idx, float64(i) / float64(n)})
		}
	}
	sort.SliceStable(work, func(a, b int) bool { return work[a].frac < work[b].frac })
	{
		for _, w := range work {
			ji, idx := w.ji, w.idx
			job := &jobs[ji]
			fn := engines[job.Engine]
			if *budget > 0 && time.Since(start) > *budget {
				res.Extra["runs_skipped_budget"]++
				continue
			}
			marker.set(ji, idx)
			o := fn(job, *prop, *seed, idx)
			if o.Trouble != nil {
				res.Trouble = append(res.Trouble, fmt.Sprintf("run %d: %v", idx, o.Trouble))
				continue
			}
			res.Runs++
			if o.Evals > 0 {
				res.Evals += o.Evals
			} else {
				res.Evals++
			}
			res.Ops += o.NOps
			res.ByBackend[o.RF.Backend]++
			res.ByEngine[job.Engine]++
			if o.Stats != nil {
				agg.Merge(o.Stats)
				if nontrivial(*prop, o.Stats) {
					h := opsHash(o.RF)
					res.Hashes = append(res.Hashes, h)
					// position-enumeration engines: every (run, position) pair is a distinct case
					for k := 1; k < o.Evals; k++ {
						res.Hashes = append(res.Hashes, h+uint64(k)*0x9e3779b97f4a7c15)
					}
				}
			}
			if len(res.Samples) < 2 && o.NOps > 3 && *shard == 0 {
				res.Samples = append(res.Samples, append([]string{fmt.Sprintf("engine=%s backend=%s mode=%s run=%d", job.Engine, o.RF.Backend, o.RF.Mode, idx)}, SampleOps(o.RF, 12)...))
			}
			if o.V != nil {
				if o.V.HasProp(*prop) {
					k := violKey(o.V)
					res.ViolCount[k]++
					if perKey[k] < 2 {
						perKey[k]++
						rf := o.RF
						rf.Violation = o.V
						res.Violations = append(res.Violations, rf)
					}
				} else {
					res.Collateral[o.V.Rule]++
				}
			}
		}
	}
	res.StoreCalls = agg.StoreCalls
	res.Stats = statsToJSON(agg)
	b, _ := json.Marshal(res)
	if err := os.WriteFile(*out, b, 0o644); err != nil {
		fmt.Fprintln(os.Stderr, err)
		return 2
	}
	marker.done()
	return 0
}

// ---- known findings -----------------------------------------------------------------------

type KnownFinding struct {
	Property    string            `json:"property"`
	Rule        string            `json:"rule"`
	Features    map[string]string `json:"features,omitempty"`
	Description string            `json:"description"`
	Replay      string            `json:"replay,omitempty"`
}

type KnownFile struct {
	Known []KnownFinding `json:"known"`
	Fixed []string       `json:"fixed"`
}

func loadKnown(root string) *KnownFile {
	kf := &KnownFile{}
	b, err := os.ReadFile(filepath.Join(root, "known_findings.json"))
	if err == nil {
		json.Unmarshal(b, kf)
	}
	return kf
}

func (k *KnownFinding) matches(prop string, v *Violation) bool {
	if k.Property != prop || k.Rule != v.Rule {
		return false
	}
	for f, want := range k.Features {
		if v.Features[f] != want {
			return false
		}
	}
	return true
}

// ---- check driver -----------------------------------------------------------------------------

func verifRoot() string {
	if r := os.Getenv("VERIF_ROOT"); r != "" {
		return r
	}
	exe, err := os.Executable()
	if err == nil {
		return filepath.Dir(filepath.Dir(exe))
	}
	return "."
}

// CheckMain: verif check <PROP> --tier quick|thorough
func CheckMain(args []string) int {
	if len(args) < 1 {
		fmt.Fprintln(os.Stderr, "usage: verif check <PROP> [--tier quick|thorough] [--seed N] [--workers N]")
		return 2
	}
	prop := args[0]
	fs := flag.NewFlagSet("check", flag.ExitOnError)
	tier := fs.String("tier", envOr("VERIF_TIER", "quick"), "")
	seedDefault := uint64(20261002)
	if s := os.Getenv("VERIF_SEED"); s != "" {
		if x, err := strconv.ParseUint(s, 10, 64); err == nil {
			seedDefault = x
		} else if y, err := strconv.ParseInt(s, 10, 64); err == nil {
			seedDefault = uint64(y)
		}
	}
	seed := fs.Uint64("seed", seedDefault, "")
	workers := fs.Int("workers", 16, "")
	noMin := fs.Bool("nomin", false, "skip minimisation")
	fs.Parse(args[1:])
	root := verifRoot()
	if _, ok := propInfo[prop]; !ok {
		fmt.Fprintf(os.Stderr, "unknown or unclaimed property %s\n", prop)
		return 2
	}
	fmt.Printf("seed=%d property=%s tier=%s workers=%d\n", *seed, prop, *tier, *workers)
	start := time.Now()
	scratch, err := os.MkdirTemp("", "verif-check-")
	if err != nil {
		fmt.Fprintln(os.Stderr, err)
		return 2
	}
	defer os.RemoveAll(scratch)
	os.Setenv("VERIF_SCRATCH", scratch)

	exe, _ := os.Executable()
	if *tier == "thorough" {
		// a small determinism sample first: lost determinism is harness trouble
		cmd := exec.Command(exe, "selftest", "determinism", "--prop", prop, "--n", "10")
		b, err := cmd.CombinedOutput()
		fmt.Print(string(b))
		if err != nil {
			fmt.Fprintln(os.Stderr, "determinism self-test failed (harness trouble, not a violation)")
			return 2
		}
	}
	limit := 15 * time.Minute
	budget := 6 * time.Minute
	if *tier == "thorough" {
		limit = 90 * time.Minute
		budget = 45 * time.Minute
	}
	type proc struct {
		cmd *exec.Cmd
		out string
		log *os.File
	}
	var procs []proc
	for i := 0; i < *workers; i++ {
		out := filepath.Join(scratch, fmt.Sprintf("w%d.json", i))
		logf, _ := os.Create(filepath.Join(scratch, fmt.Sprintf("w%d.log", i)))
		cmd := exec.Command(exe, "worker", "--prop", prop, "--tier", *tier, "--seed", fmt.Sprint(*seed), "--shard", fmt.Sprint(i), "--of", fmt.Sprint(*workers), "--out", out, "--budget", budget.String())
		cmd.Stdout, cmd.Stderr = logf, logf
		cmd.Env = append(os.Environ(), "GOMEMLIMIT=3GiB", "GOMAXPROCS=2")
		if err := cmd.Start(); err != nil {
			fmt.Fprintln(os.Stderr, "cannot start worker:", err)
			return 2
		}
		procs = append(procs, proc{cmd, out, logf})
	}
	hasRaceJobs := false
	for _, j := range JobsFor(prop, *tier) {
		if j.Params["race"] == "1" {
			hasRaceJobs = true
		}
	}
	if hasRaceJobs {
		raceExe := filepath.Join(filepath.Dir(exe), "verif-race")
		if _, err := os.Stat(raceExe); err != nil {
			fmt.Fprintln(os.Stderr, "bin/verif-race is missing (harness trouble): the race-detector part of this check cannot run")
			return 2
		}
		rw := *workers / 2
		if rw < 1 {
			rw = 1
		}
		for i := 0; i < rw; i++ {
			out := filepath.Join(scratch, fmt.Sprintf("r%d.json", i))
			logf, _ := os.Create(filepath.Join(scratch, fmt.Sprintf("r%d.log", i)))
			cmd := exec.Command(raceExe, "worker", "--prop", prop, "--tier", *tier, "--seed", fmt.Sprint(*seed), "--shard", fmt.Sprint(i), "--of", fmt.Sprint(rw), "--out", out, "--budget", budget.String())
			cmd.Stdout, cmd.Stderr = logf, logf
			cmd.Env = append(os.Environ(), "GOMEMLIMIT=4GiB", "GOMAXPROCS=4", "GORACE=log_path="+filepath.Join(scratch, "racelog")+" halt_on_error=0")
			if err := cmd.Start(); err != nil {
				fmt.Fprintln(os.Stderr, "cannot start race worker:", err)
				return 2
			}
			procs = append(procs, proc{cmd, out, logf})
		}
	}
	done := make(chan int, len(procs))
	for i := range procs {
		go func(i int) {
			procs[i].cmd.Wait()
			done <- i
		}(i)
	}
	timer := time.After(limit)
	for n := 0; n < len(procs); n++ {
		select {
		case <-done:
		case <-timer:
			for _, p := range procs {
				p.cmd.Process.Kill()
			}
			fmt.Fprintf(os.Stderr, "WATCHDOG: workers did not finish within %v (harness trouble, not a violation)\n", limit)
			return 2
		}
	}
	// aggregate
	total := &workerResult{ViolCount: map[string]int{}, Collateral: map[string]int{}, ByBackend: map[string]int{}, ByEngine: map[string]int{}, Extra: map[string]int64{}}
	agg := &statsJSON{Ops: map[string]int{}, Probes: map[string]int{}, Checks: map[string]int{}, Fired: map[string]int{}}
	hashes := map[uint64]struct{}{}
	states := map[uint64]struct{}{}
	// workers that died: did the run they were executing kill them? The first few
	// are investigated (concurrently: a blocked call takes the hang limit to show)
	type inquest struct {
		rf  *RunFile
		why string
	}
	inquests := map[int]*inquest{}
	var iwg sync.WaitGroup
	for i, p := range procs {
		if _, err := os.Stat(p.out); err != nil && len(inquests) < 3 {
			q := &inquest{}
			inquests[i] = q
			iwg.Add(1)
			go func(out string) {
				defer iwg.Done()
				q.rf, q.why = investigateDeath(prop, *tier, *seed, out, scratch)
			}(p.out)
		}
	}
	iwg.Wait()
	for i, p := range procs {
		p.log.Close()
		b, err := os.ReadFile(p.out)
		if err != nil {
			total.Extra["workers_lost_to_process_death"]++
			q := inquests[i]
			if q == nil {
				continue // more dead workers than inquests: the first ones speak for them
			}
			if q.rf == nil {
				lb, _ := os.ReadFile(p.log.Name())
				fmt.Fprintf(os.Stderr, "worker %d produced no result (harness trouble: %s):\n%s\n", i, q.why, tail(string(lb), 3000))
				return 2
			}
			if q.rf.Violation.HasProp(prop) {
				total.ViolCount[violKey(q.rf.Violation)]++
				total.Violations = append(total.Violations, q.rf)
			} else {
				total.Collateral[q.rf.Violation.Rule]++
			}
			continue
		}
		wr := &workerResult{}
		if err := json.Unmarshal(b, wr); err != nil {
			fmt.Fprintln(os.Stderr, "bad worker result:", err)
			return 2
		}
		total.Runs += wr.Runs
		total.Evals += wr.Evals
		total.Ops += wr.Ops
		total.StoreCalls += wr.StoreCalls
		total.Trouble = append(total.Trouble, wr.Trouble...)
		total.Violations = append(total.Violations, wr.Violations...)
		total.Samples = append(total.Samples, wr.Samples...)
		for k, v := range wr.ViolCount {
			total.ViolCount[k] += v
		}
		for k, v := range wr.Collateral {
			total.Collateral[k] += v
		}
		for k, v := range wr.ByBackend {
			total.ByBackend[k] += v
		}
		for k, v := range wr.ByEngine {
			total.ByEngine[k] += v
		}
		for k, v := range wr.Extra {
			total.Extra[k] += v
		}
		for _, h := range wr.Hashes {
			hashes[h] = struct{}{}
		}
		if wr.Stats != nil {
			for k, v := range wr.Stats.Ops {
				agg.Ops[k] += v
			}
			for k, v := range wr.Stats.Probes {
				agg.Probes[k] += v
			}
			for k, v := range wr.Stats.Checks {
				agg.Checks[k] += v
			}
			for k, v := range wr.Stats.Fired {
				agg.Fired[k] += v
			}
			for _, s := range wr.Stats.States {
				states[s] = struct{}{}
			}
		}
	}
	if len(total.Trouble) > 0 {
		fmt.Fprintf(os.Stderr, "harness trouble in %d runs, e.g. %s\n", len(total.Trouble), total.Trouble[0])
		if total.Runs == 0 {
			return 2
		}
	}
	if total.Runs == 0 && len(total.Violations) == 0 {
		fmt.Fprintln(os.Stderr, "no run was executed (harness trouble)")
		return 2
	}

	// classify violations
	known := loadKnown(root)
	knownHit := map[int]int{}
	var fresh []*RunFile
	seenFresh := map[string]bool{}
	for _, rf := range total.Violations {
		matched := false
		for ki := range known.Known {
			if known.Known[ki].matches(prop, rf.Violation) {
				knownHit[ki]++
				matched = true
				break
			}
		}
		if !matched {
			k := violKey(rf.Violation)
			if !seenFresh[k] {
				seenFresh[k] = true
				fresh = append(fresh, rf)
			}
		}
	}
	kis := make([]int, 0, len(knownHit))
	for ki := range knownHit {
		kis = append(kis, ki)
	}
	sort.Ints(kis)
	for _, ki := range kis {
		k := known.Known[ki]
		fmt.Printf("KNOWN-FINDING: property=%s rule=%s %s\n", prop, k.Rule, k.Description)
	}
	exit := 0
	nViol := 0
	replayDir := filepath.Join(root, "replays")
	evidenceDir := filepath.Join(root, "evidence")
	if os.Getenv("VERIF_REPO") != "" {
		// sensitivity experiment on a scratch copy: never touch the registered evidence
		replayDir = filepath.Join(root, "bin", "alt-replays")
		evidenceDir = filepath.Join(root, "bin", "alt-evidence")
	}
	os.MkdirAll(replayDir, 0o755)
	sort.Slice(fresh, func(i, j int) bool { return violKey(fresh[i].Violation) < violKey(fresh[j].Violation) })
	for i, rf := range fresh {
		if i >= 6 {
			break
		}
		min := rf
		if !*noMin {
			min = Minimise(rf, prop, 25*time.Second)
		}
		name := fmt.Sprintf("%s-%s-%d-%d.json", prop, sanitize(rf.Violation.Rule), rf.Seed, rf.RunIdx)
		path := filepath.Join(replayDir, name)
		min.Save(path)
		// replay in a fresh process and require the same rule
		ok, outp := replayInFreshProcess(exe, path, min.Violation.Rule)
		if !ok && min != rf {
			rf.Save(path)
			ok, outp = replayInFreshProcess(exe, path, rf.Violation.Rule)
			min = rf
		}
		if !ok {
			fmt.Fprintf(os.Stderr, "a violation of %s did not reproduce from its replay file (%s): harness trouble, not reported\n%s\n", rf.Violation.Rule, path, tail(outp, 800))
			if exit == 0 {
				exit = 2
			}
			continue
		}
		nViol++
		exit = 1
		fmt.Printf("VIOLATION property=%s replay=%s\n", prop, path)
		fmt.Printf("  %s\n", min.Violation.String())
		fmt.Printf("  ops in replay: %d (first seen in run %d, seed %d, backend %s)\n", len(min.Ops)+clientOps(min), rf.RunIdx, rf.Seed, rf.Backend)
	}

	// required probes
	missing := []string{}
	if *tier == "thorough" || true {
		for _, p := range propInfo[prop].RequiredProbes {
			if agg.Probes[p] == 0 && agg.Fired[p] == 0 && agg.Checks[p] == 0 {
				missing = append(missing, p)
			}
		}
	}

	wall := time.Since(start).Seconds()
	ev := buildEvidence(prop, *tier, *seed, total, agg, len(hashes), len(states), wall, nViol, knownHit, known, missing)
	os.MkdirAll(evidenceDir, 0o755)
	eb, _ := json.MarshalIndent(ev, "", " ")
	if err := os.WriteFile(filepath.Join(evidenceDir, prop+".json"), eb, 0o644); err != nil {
		fmt.Fprintln(os.Stderr, err)
		return 2
	}
	fmt.Printf("runs=%d evals=%d ops=%d storeCalls=%d distinct_nontrivial=%d modelStates=%d wall=%.1fs violations=%d collateral=%v\n", total.Runs, total.Evals, total.Ops, total.StoreCalls, len(hashes), len(states), wall, nViol, total.Collateral)
	if exit == 0 && len(total.Trouble) > 0 {
		fmt.Fprintf(os.Stderr, "%d runs could not be executed (harness trouble): the check is not conclusive\n", len(total.Trouble))
		return 2
	}
	if exit == 0 && len(missing) > 0 && len(knownHit) == 0 {
		fmt.Fprintf(os.Stderr, "required probes never hit: %v (the workload does not reach what the check claims; harness trouble)\n", missing)
		return 2
	}
	return exit
}

func clientOps(rf *RunFile) int {
	n := 0
	for _, c := range rf.Clients {
		n += len(c)
	}
	return n
}

func envOr(k, d string) string {
	if v := os.Getenv(k); v != "" {
		return v
	}
	return d
}

func tail(s string, n int) string {
	if len(s) > n {
		return s[len(s)-n:]
	}
	return s
}

func sanitize(s string) string {
	r := strings.NewReplacer("/", "_", "(", "_", ")", "", " ", "_")
	return r.Replace(s)
}

func replayInFreshProcess(exe, path, wantRule string) (bool, string) {
	env := append(os.Environ(), "GOMEMLIMIT=3GiB")
	if strings.Contains(wantRule, "data-race") {
		exe = filepath.Join(filepath.Dir(exe), "verif-race")
		d, _ := os.MkdirTemp("", "verif-racelog-")
		defer os.RemoveAll(d)
		env = append(env, "GORACE=log_path="+filepath.Join(d, "racelog")+" halt_on_error=0")
	}
	cmd := exec.Command(exe, "replay", path)
	cmd.Env = env
	b, _ := cmd.CombinedOutput()
	return strings.Contains(string(b), "rule="+wantRule+" "), string(b)
}

// ReplayMain: verif replay <file>; exit 1 and print the violation when it reproduces.
func ReplayMain(args []string) int {
	if len(args) < 1 {
		fmt.Fprintln(os.Stderr, "usage: verif replay <file>")
		return 2
	}
	rf, err := LoadRunFile(args[0])
	if err != nil {
		fmt.Fprintln(os.Stderr, err)
		return 2
	}
	if os.Getenv("VERIF_SCRATCH") == "" {
		d, _ := os.MkdirTemp("", "verif-replay-")
		defer os.RemoveAll(d)
		os.Setenv("VERIF_SCRATCH", d)
	}
	o := ExecuteRunFile(rf)
	if o.Trouble != nil {
		fmt.Fprintln(os.Stderr, "trouble:", o.Trouble)
		return 2
	}
	if o.V == nil {
		fmt.Println("no violation: the run file passes on this tree")
		return 0
	}
	fmt.Printf("VIOLATION property=%s replay=%s\n", rf.Prop, args[0])
	fmt.Println(o.V.String())
	return 1
}

// ---- evidence -----------------------------------------------------------------------------------

func buildEvidence(prop, tier string, seed uint64, total *workerResult, agg *statsJSON, distinct, states int, wall float64, nViol int, knownHit map[int]int, known *KnownFile, missing []string) map[string]interface{} {
	info := propInfo[prop]
	kf := []string{}
	for ki, n := range knownHit {
		kf = append(kf, fmt.Sprintf("%s x%d", known.Known[ki].Rule, n))
	}
	sort.Strings(kf)
	runsPerHour := 0.0
	if wall > 0 {
		runsPerHour = float64(total.Runs) / wall * 3600
	}
	samples := []interface{}{}
	for _, s := range total.Samples {
		samples = append(samples, s)
		if len(samples) >= 3 {
			break
		}
	}
	if len(samples) == 0 {
		samples = append(samples, "no run long enough to sample")
	}
	cov := map[string]interface{}{
		"evaluations":                 total.Evals,
		"run_files":                   total.Runs,
		"distinct_nontrivial":         distinct,
		"rule":                        info.Rule,
		"samples":                     samples,
		"exhaustive":                  false,
		"runs_per_hour":               int(runsPerHour),
		"operations_executed":         total.Ops,
		"logical_steps_store_calls":   total.StoreCalls,
		"simulated_time":              "not applicable: the system under test reads no clock on any decision path; progress is counted in scheduled store calls",
		"distinct_model_states":       states,
		"runs_by_backend":             total.ByBackend,
		"runs_by_engine":              total.ByEngine,
		"real_vs_stub":                "mem-* = simulated disk (stub storage engine); bbolt / badger-* = the shipped adapters over the real engines; clover's own code is real in every run",
		"faults_and_crashes_fired":    agg.Fired,
		"oracle_clauses_evaluated":    agg.Checks,
		"probes":                      agg.Probes,
		"ops_by_kind":                 agg.Ops,
		"collateral_other_properties": total.Collateral,
		"known_findings_hit":          kf,
		"required_probes_missing":     missing,
		"extra":                       total.Extra,
	}
	return map[string]interface{}{
		"property_id": prop,
		"tier":        tier,
		"seed":        int64(seed & 0x7fffffffffffffff),
		"level":       info.Level,
		"coverage":    cov,
		"assumptions": info.Assumptions,
		"wall_s":      wall,
		"violations":  nViol,
	}
}
