package sim

import (
	"fmt"
	"math"
	"sort"
	"strings"
	"time"

	"verif/sim/model"
	"verif/sim/rng"
	"verif/sim/val"
)

// GenCfg is the per-run (swarm) configuration, drawn from the run PRNG.
type GenCfg struct {
	Mode      string // workload mode (query, twin, bulk, audit, sort, derived, roundtrip, ids, catalog, indexcat, export, nasty)
	Faults    string // "none", "faults", "restarts", "crashes"
	Extremes  bool   // value pool includes int/uint/time extremes; no indexes are created
	JSONSafe  bool   // only JSON-representable values (export/import runs)
	NOps      int
	MaxDocs   int
	CollNames []string
	Fields    []string // top-level field names used in this run
	Paths     []string // paths usable in criteria / sort / index (fields + dotted)
	W         map[string]int
	Indexes   bool
	BigBulk   int  // when >0: one collection is loaded with this many documents
	Determ    bool // only operations whose outcome is fully determined (crash engines)
	Expiring  bool // some documents carry _expiresAt (past and future instants)
	Wide      bool // some documents have 16+ top-level fields, a 70000-byte string
}

type Gen struct {
	R      *rng.R
	Cfg    GenCfg
	tag    int
	idSeq  int
	files  []string
	twins  [][]string // groups of twin collections (twin mode)
	pool   []interface{}
	nfiles int
	count  int
	queue  []Op // ops to issue next, in order (scenarios spanning several ops)
}

var collNamePool = []string{"a", "ab", "coll", "c:", "d:", "i:x", "x y", "naïve", "c.d", "a:b", "日本", "t", "", "coll:", "c:a", "\x00", "A", "a-rather-long-collection-name-0123456789", "a\xff", "log\xfe", "log\xff", "caf\xe9", "log", "log ", " log", "a\n", "\ta"}
var fieldPool = []string{"a", "ab", "b", "x", "xy", "n", "s", "arr", "a_rather_long_field_name_for_an_index", "rate%", "x%v"}

func i64(x int64) interface{}   { return x }
func u64(x uint64) interface{}  { return x }
func f64(x float64) interface{} { return x }

func tm(sec, nsec int64, off int, name string) interface{} { return val.MkTime(sec, nsec, off, name) }

func arr(xs ...interface{}) interface{} { return append([]interface{}{}, xs...) }
func obj(kv ...interface{}) interface{} {
	m := map[string]interface{}{}
	for i := 0; i+1 < len(kv); i += 2 {
		m[kv[i].(string)] = kv[i+1]
	}
	return m
}

// safePool: boundary-rich but inside every carve-out (integers within 2^53,
// times from 1970 on), deliberately small so that duplicates and ties abound.
func safePool() []interface{} {
	return []interface{}{
		nil, true, false,
		i64(0), i64(1), i64(-1), i64(2), i64(3), i64(5), i64(10), i64(1 << 53), i64(-(1 << 53)),
		u64(0), u64(1), u64(5), u64(1 << 53),
		f64(0), f64(math.Copysign(0, -1)), f64(0.5), f64(1), f64(1.5), f64(-1.5), f64(2), f64(3), f64(5e-324), f64(1e-310), f64(1e300), f64(-1e300),
		"", "a", "ab", "abc", "b", "a\x00", "a\x00b", "a\xff", "\xff\xfe", "é", "$a", "A", "10",
		"100%", "%s%d%", "2021-03-04T05:06:07.120Z", "2021-03-04T05:06:07+00:00", // text that looks like a format or like a time is text
		tm(0, 0, 0, "UTC"), tm(946684800, 0, 0, "UTC"), tm(946684800, 0, 7200, "EET"), tm(946684800, 1, 0, "UTC"), tm(946684800, 999999999, -3600*5, "EST"), tm(1700000000, 123456789, 19800, "IST"),
		arr(), arr(i64(1)), arr(i64(1), i64(2)), arr("a"), arr(i64(1), "a", nil), arr(arr(i64(1))), arr(f64(1)),
		arr(tm(946684800, 5, 3600, "CET")), arr(obj("k", tm(946684800, 6, -7200, "X"))), arr(obj("k", arr(tm(0, 0, 0, "UTC")))),
		obj(), obj("k", i64(1)), obj("k", i64(2)), obj("a", i64(1), "b", "x"), obj("k", obj("j", tm(1700000000, 1, 60, "Z1"))), obj("k", nil),
		tm(946684800, 7, 3601, "odd"),                                       // zone offset that is not a whole number of minutes
		longStr("a"), longStr("b"), longStr("bb"), medStr("x"), medStr("y"), // long strings that differ only after a long common prefix
		i64(1<<53 - 1), f64(math.MaxFloat64), tm(1700000000, 255, 0, "UTC"), // encodings whose last byte is 0xff
		arr(obj("k", arr(obj("j", arr(tm(1700000000, 2, -3600, "W"), nil, i64(1)))))), // depth 5
		obj("k", arr(arr(), obj(), "", nil)),
		// integers beyond 2^53 which float64 holds exactly: comparison and index key agree on them
		i64(1 << 60), i64(-(1 << 60)), u64(1 << 63), i64(3 << 61), i64(-(3 << 61)), // the last two are more than 2^63 apart
		arr(arr(tm(946684800, 11, 3600, "CET"), tm(946684800, 12, 0, "UTC")), arr(tm(1700000000, 0, -3600, "W"))), // times in arrays in arrays
		// zone offsets beyond +-9h, and a negative one that is not a whole number of minutes (a local mean time)
		tm(946684800, 3, 34200, "ACST"), tm(946684800, 4, -36000, "HST"), tm(946684800, 8, 50400, "LINT"), tm(946684800, 9, -17762, "LMT"), tm(1000000000, 0, -59, "odd-"),
		wideObj(16), wideArr(17),
	}
}

// wideObj / wideArr: containers beyond the 15-element short forms of the record encoding.
func wideObj(n int) interface{} {
	m := map[string]interface{}{}
	for i := 0; i < n; i++ {
		m[fmt.Sprintf("k%02d", i)] = int64(i)
	}
	return m
}

func wideArr(n int) interface{} {
	a := make([]interface{}, n)
	for i := range a {
		a[i] = int64(i % 5)
	}
	return a
}

func longStr(tail string) interface{} { return strings.Repeat("p", 300) + tail }
func medStr(tail string) interface{}  { return strings.Repeat("q", 70) + tail }

func jsonSafePool() []interface{} {
	return []interface{}{
		nil, true, false,
		i64(0), i64(1), i64(-1), i64(2), i64(5), i64(1 << 53), i64(-(1 << 53)),
		u64(0), u64(5), u64(1 << 53),
		f64(0), f64(0.5), f64(1.5), f64(-1.5), f64(1e300), f64(5e-324),
		"", "a", "ab", "b", "é", "$a", "a\x00", "日",
		"100%", "%s%d%", "2021-03-04T05:06:07.120Z", "2021-03-04T05:06:07+00:00",
		tm(0, 0, 0, "UTC"), tm(946684800, 0, 7200, "EET"), tm(946684800, 999999999, -3600*5, "EST"),
		arr(), arr(i64(1), i64(2)), arr("a", nil), arr(tm(946684800, 5, 3600, "CET")), arr(obj("k", tm(946684800, 6, -7200, "X"))),
		obj(), obj("k", i64(1)), obj("a", i64(1), "b", "x"), obj("k", obj("j", tm(1700000000, 1, 60, "Z1"))),
		tm(946684800, 3, 34200, "ACST"), tm(946684800, 4, -36000, "HST"), wideObj(16), wideArr(17),
	}
}

func extremePool() []interface{} {
	return append(safePool(),
		i64(math.MaxInt64), i64(math.MinInt64), i64(math.MaxInt64-1), i64(math.MinInt64+1), i64(1<<53+1), i64(-(1<<53)-1), i64(1<<62),
		u64(math.MaxUint64), u64(1<<63), u64(1<<63-1), u64(1<<63+1), u64(1<<53+1),
		tm(-1, 0, 0, "UTC"), tm(-62135596800, 0, 0, "UTC"), tm(253402300799, 999999999, 0, "UTC"), tm(-9000000000, 5, 3600, "CET"), tm(9000000000, 0, 0, "UTC"),
		arr(i64(math.MaxInt64), u64(math.MaxUint64)), obj("k", i64(math.MinInt64)),
	)
}

var numKinds = []string{"", "", "", "int", "int8", "int16", "int32", "int64", "uint", "uint8", "uint16", "uint32", "uint64", "float32"}

var likePatterns = []string{"^a", "a", "b$", "^$", ".", "^a.*c$", "[ab]+", "\\x00", "^\\$", "^ab?", "^ab*c", "^a|b", "^a{0,1}b", "^(a|b)$", "^ab?$|^10"}
var predNames = []string{"isString", "isNumber", "has", "absent", "isNil", "true", "false"}

// DrawCfg draws a swarm configuration.
func DrawCfg(r *rng.R, mode, faults string) GenCfg {
	c := GenCfg{Mode: mode, Faults: faults, Indexes: true, W: map[string]int{}}
	c.NOps = r.Range(20, 70)
	c.MaxDocs = r.Range(4, 18)
	if r.Chance(0.15) {
		c.MaxDocs = r.Range(20, 40)
	}
	// collections
	nColl := r.Range(1, 4)
	names := append([]string{}, collNamePool...)
	for i := 0; i < nColl; i++ {
		j := r.Intn(len(names))
		c.CollNames = append(c.CollNames, names[j])
		names = append(names[:j], names[j+1:]...)
	}
	if r.Chance(0.5) && nColl >= 2 {
		// force a prefix pair, or names that differ only in surrounding white space
		c.CollNames[0], c.CollNames[1] = "a", "ab"
		if r.Chance(0.25) {
			pairs := [][2]string{{"log", "log "}, {" log", "log"}, {"a", "a\n"}, {"\ta", "a"}}
			pr := pairs[r.Intn(len(pairs))]
			c.CollNames[0], c.CollNames[1] = pr[0], pr[1]
		}
	}
	// fields: always include a prefix pair and the nested object
	nf := r.Range(3, 6)
	fs := append([]string{}, fieldPool...)
	for i := 0; i < nf; i++ {
		j := r.Intn(len(fs))
		c.Fields = append(c.Fields, fs[j])
		fs = append(fs[:j], fs[j+1:]...)
	}
	has := func(f string) bool {
		for _, x := range c.Fields {
			if x == f {
				return true
			}
		}
		return false
	}
	if r.Chance(0.6) {
		for _, f := range []string{"x", "xy"} {
			if !has(f) {
				c.Fields = append(c.Fields, f)
			}
		}
	}
	c.Paths = append([]string{}, c.Fields...)
	if has("n") {
		c.Paths = append(c.Paths, "n.a", "n.b")
		if r.Chance(0.3) {
			c.Paths = append(c.Paths, "n.a.z")
		}
	}
	if r.Chance(0.3) {
		c.Paths = append(c.Paths, "_id")
	}
	if r.Chance(0.2) {
		c.Paths = append(c.Paths, "zz") // never present
	}
	if r.Chance(0.25) {
		c.Expiring = true // some documents carry an expiration instant
		if r.Chance(0.5) {
			c.Paths = append(c.Paths, "_expiresAt")
		}
	}
	c.Wide = r.Chance(0.15)
	if mode != "export" && r.Chance(0.12) {
		c.Extremes = true
		c.Indexes = false
	}
	if mode == "export" {
		c.JSONSafe = true
	}
	// base weights
	w := c.W
	w["CreateCollection"] = 3
	w["DropCollection"] = 1
	w["HasCollection"] = 1
	w["ListCollections"] = 1
	w["Insert"] = 14
	w["InsertOne"] = 3
	w["Save"] = 3
	w["FindAll"] = 14
	w["Derived"] = 3
	w["FindById"] = 2
	w["DeleteById"] = 4
	w["UpdateById"] = 5
	w["ReplaceById"] = 2
	w["Update"] = 5
	w["UpdateFunc"] = 3
	w["Delete"] = 3
	w["CreateIndex"] = 4
	w["DropIndex"] = 2
	w["HasIndex"] = 1
	w["ListIndexes"] = 1
	w["Export"] = 0
	w["Import"] = 0
	w["CreateCollectionByQuery"] = 1
	w["Invalid"] = 3 // invalid-input variants of the write ops
	switch mode {
	case "query":
		w["FindAll"] = 30
	case "twin":
		w["FindAll"] = 30
		w["DropCollection"] = 2
		w["CreateIndex"] = 8
		w["DropIndex"] = 3
		w["Derived"] = 4
	case "bulk":
		w["Update"], w["UpdateFunc"], w["Delete"] = 14, 10, 8
		w["DropCollection"] = 3
		w["CreateIndex"] = 6
	case "audit":
		w["DeleteById"] = 10
		w["DropCollection"], w["DropIndex"], w["CreateIndex"] = 5, 6, 8
		w["Update"], w["Delete"] = 8, 6
		w["Derived"] = 6
		w["Invalid"] = 8
	case "sort":
		w["FindAll"] = 34
		w["CreateIndex"] = 6
	case "derived":
		w["Derived"] = 30
		w["DeleteById"] = 8
		w["Invalid"] = 6
	case "roundtrip":
		w["Insert"], w["Save"], w["UpdateById"], w["ReplaceById"], w["Update"] = 18, 8, 10, 8, 8
		w["FindById"] = 8
	case "ids":
		w["Insert"], w["InsertOne"], w["Save"], w["ReplaceById"], w["UpdateById"] = 14, 6, 8, 8, 10
		w["Invalid"] = 14
		w["FindById"] = 6
	case "catalog":
		w["CreateCollection"], w["DropCollection"], w["HasCollection"], w["ListCollections"] = 10, 8, 5, 5
		w["Invalid"] = 10
		w["CreateCollectionByQuery"] = 3
	case "indexcat":
		w["CreateIndex"], w["DropIndex"], w["HasIndex"], w["ListIndexes"] = 14, 10, 5, 5
		w["Invalid"] = 6
		w["FindAll"] = 18
	case "export":
		w["Export"], w["Import"] = 8, 10
		w["CreateIndex"] = 4
	case "nasty":
		w["Export"], w["Import"] = 0, 3 // ill-formed files only (nothing is exported here: the values of this mode are not JSON-representable): whatever an import does with them, it returns
		w["FindAll"] = 24
		w["Derived"] = 8
		w["CreateIndex"] = 10
		w["Invalid"] = 10
	}
	if !c.Indexes {
		w["CreateIndex"], w["DropIndex"] = 0, 0
	}
	// swarm: randomly mute a few op kinds
	for _, k := range []string{"Save", "ReplaceById", "UpdateFunc", "DeleteById", "CreateCollectionByQuery", "DropCollection", "DropIndex", "Derived"} {
		if r.Chance(0.15) {
			w[k] = 0
		}
	}
	return c
}

func NewGen(r *rng.R, cfg GenCfg) *Gen {
	g := &Gen{R: r, Cfg: cfg}
	switch {
	case cfg.JSONSafe:
		g.pool = jsonSafePool()
	case cfg.Extremes:
		g.pool = extremePool()
	default:
		g.pool = safePool()
	}
	// thin the pool per run so that duplicates are frequent
	keep := r.Range(8, len(g.pool))
	for len(g.pool) > keep {
		j := r.Intn(len(g.pool))
		g.pool = append(g.pool[:j], g.pool[j+1:]...)
	}
	return g
}

func (g *Gen) value() interface{} { return val.Clone(g.pool[g.R.Intn(len(g.pool))]) }

func (g *Gen) newID() string {
	var b [16]byte
	g.R.Read(b[:])
	b[6] = (b[6] & 0x0f) | 0x40
	b[8] = (b[8] & 0x3f) | 0x80
	return fmt.Sprintf("%x-%x-%x-%x-%x", b[0:4], b[4:6], b[6:8], b[8:10], b[10:16])
}

func (g *Gen) nextTag() interface{} {
	g.tag++
	return fmt.Sprintf("t%04d", g.tag)
}

func (g *Gen) doc(withID bool) map[string]interface{} {
	d := map[string]interface{}{}
	for _, f := range g.Cfg.Fields {
		if g.R.Chance(0.25) {
			continue // absent
		}
		if f == "n" && g.R.Chance(0.7) {
			n := map[string]interface{}{}
			if g.R.Chance(0.7) {
				n["a"] = g.value()
			}
			if g.R.Chance(0.5) {
				n["b"] = g.value()
			}
			d[f] = n
			continue
		}
		if f == "arr" && g.R.Chance(0.7) {
			k := g.R.Intn(4)
			if g.R.Chance(0.12) {
				k = g.R.Range(9, 14) // long arrays: anything that reorders or chunks them shows here
			}
			a := make([]interface{}, k)
			for i := range a {
				a[i] = g.value()
			}
			d[f] = a
			continue
		}
		d[f] = g.value()
	}
	if g.Cfg.JSONSafe && g.R.Chance(0.25) {
		d["p.q"] = g.value() // a literal dotted key at top level: it is one field, not a path
	}
	if g.Cfg.Expiring && g.R.Chance(0.3) {
		// the library stores the instant and nothing else: expired documents stay
		if g.R.Bool() {
			d["_expiresAt"] = tm(946684800, 0, 0, "UTC") // long ago
		} else {
			d["_expiresAt"] = tm(7258118400, 0, 3600, "CET") // year 2200
		}
	}
	if g.Cfg.Wide && g.R.Chance(0.3) {
		for i, n := 0, g.R.Range(13, 20); i < n; i++ {
			d[fmt.Sprintf("w%02d", i)] = int64(i % 3)
		}
		if g.R.Chance(0.2) && !g.Cfg.JSONSafe {
			d["big"] = strings.Repeat("z", 70000)
		}
	}
	if withID {
		id := g.newID()
		if g.R.Chance(0.08) {
			// other 36-character spellings of a valid UUID are valid ids too, and are kept as given
			if g.R.Bool() {
				id = strings.ToUpper(id)
			} else {
				id = strings.ToUpper(id[:8]) + id[8:]
			}
		}
		d["_id"] = id
	}
	return d
}

func (g *Gen) pickColl(m *model.DB, wantExisting bool) string {
	if wantExisting {
		names := m.CollNames()
		if len(names) > 0 {
			return names[g.R.Intn(len(names))]
		}
	}
	return g.Cfg.CollNames[g.R.Intn(len(g.Cfg.CollNames))]
}

func (g *Gen) pickPath() string { return g.Cfg.Paths[g.R.Intn(len(g.Cfg.Paths))] }

func (g *Gen) pickID(c *model.Coll, wantLive float64) string {
	if c != nil && len(c.Docs) > 0 && g.R.Chance(wantLive) {
		ids := c.IDs()
		return ids[g.R.Intn(len(ids))]
	}
	return g.newID()
}

func (g *Gen) operand(c *model.Coll, path string, allowFieldObj bool) model.Operand {
	if g.R.Chance(0.1) {
		style := 2
		if allowFieldObj && g.R.Bool() {
			style = 1
		}
		return model.Operand{RefStyle: style, Ref: g.pickPath()}
	}
	var v interface{}
	// prefer a value that occurs in the collection under that path
	if c != nil && len(c.Docs) > 0 && g.R.Chance(0.6) {
		ids := c.IDs()
		v = val.Clone(model.Get(c.Docs[ids[g.R.Intn(len(ids))]], path))
	} else {
		v = g.value()
	}
	if s, ok := v.(string); ok && strings.HasPrefix(s, "$") {
		v = "a" // a literal starting with '$' would be a field reference
	}
	o := model.Operand{Lit: val.Wrap(v)}
	if val.IsNumber(v) {
		o.NumKind = numKinds[g.R.Intn(len(numKinds))]
		if g.Cfg.Extremes {
			// keep kinds that cannot change the value
			switch o.NumKind {
			case "float32":
				o.NumKind = ""
			}
		}
	}
	return o
}

// pickPathFor prefers an indexed field of the collection.
func (g *Gen) pickPathFor(c *model.Coll, p float64) string {
	if c != nil && len(c.Indexes) > 0 && g.R.Chance(p) {
		fs := c.IndexFields()
		return fs[g.R.Intn(len(fs))]
	}
	return g.pickPath()
}

func (g *Gen) leaf(c *model.Coll) *model.Crit {
	path := g.pickPathFor(c, 0.35)
	ops := []string{"eq", "eq", "neq", "gt", "gte", "lt", "lte", "in", "contains", "like", "exists", "notexists", "func"}
	op := ops[g.R.Intn(len(ops))]
	cr := &model.Crit{Op: op, F: path}
	switch op {
	case "eq", "neq", "gt", "gte", "lt", "lte":
		o := g.operand(c, path, true)
		cr.A = &o
	case "in", "contains":
		n := g.R.Range(1, 3)
		if op == "contains" {
			cr.F = "arr"
			if g.R.Chance(0.2) {
				cr.F = path
			}
		}
		for i := 0; i < n; i++ {
			o := g.operand(c, cr.F, false)
			if op == "contains" && o.RefStyle == 0 && c != nil && len(c.Docs) > 0 && g.R.Chance(0.7) {
				// element of some stored array
				ids := c.IDs()
				if a, ok := model.Get(c.Docs[ids[g.R.Intn(len(ids))]], cr.F).([]interface{}); ok && len(a) > 0 {
					e := val.Clone(a[g.R.Intn(len(a))])
					if s, isS := e.(string); !isS || !strings.HasPrefix(s, "$") {
						o = model.Operand{Lit: val.Wrap(e)}
					}
				}
			}
			cr.As = append(cr.As, o)
		}
	case "like":
		cr.Pat = likePatterns[g.R.Intn(len(likePatterns))]
	case "func":
		cr.F = ""
		cr.Func = predNames[g.R.Intn(len(predNames))] + ":" + path
	}
	return cr
}

// cmpLeaf draws a comparison on the given path (the shapes the planner turns into ranges).
func (g *Gen) cmpLeaf(c *model.Coll, path string) *model.Crit {
	ops := []string{"eq", "neq", "gt", "gte", "lt", "lte"}
	o := g.operand(c, path, true)
	return &model.Crit{Op: ops[g.R.Intn(len(ops))], F: path, A: &o}
}

// plannerShape draws criteria aimed at the planner: several comparisons on ONE
// path combined through And/Or and chains of negations of every depth.
func (g *Gen) plannerShape(c *model.Coll) *model.Crit {
	path := g.pickPath()
	if c != nil && len(c.Indexes) > 0 && g.R.Chance(0.8) {
		fs := c.IndexFields()
		path = fs[g.R.Intn(len(fs))]
	}
	wrap := func(x *model.Crit) *model.Crit {
		for n := g.R.Intn(4); n > 0; n-- {
			x = &model.Crit{Op: "not", Kids: []*model.Crit{x}}
		}
		return x
	}
	a, b := wrap(g.cmpLeaf(c, path)), wrap(g.cmpLeaf(c, path))
	op := "and"
	if g.R.Chance(0.35) {
		op = "or"
	}
	x := wrap(&model.Crit{Op: op, Kids: []*model.Crit{a, b}})
	if g.R.Chance(0.4) {
		third := wrap(g.cmpLeaf(c, path))
		if g.R.Chance(0.3) {
			third = wrap(g.leaf(c))
		}
		op2 := "and"
		if g.R.Chance(0.3) {
			op2 = "or"
		}
		x = wrap(&model.Crit{Op: op2, Kids: []*model.Crit{x, third}})
	}
	return x
}

func (g *Gen) crit(c *model.Coll, depth int) *model.Crit {
	if depth >= 2 && g.R.Chance(0.18) {
		return g.plannerShape(c)
	}
	if depth <= 0 || g.R.Chance(0.45) {
		return g.leaf(c)
	}
	switch g.R.Intn(4) {
	case 0:
		return &model.Crit{Op: "not", Kids: []*model.Crit{g.crit(c, depth-1)}}
	case 1:
		return &model.Crit{Op: "or", Kids: []*model.Crit{g.crit(c, depth-1), g.crit(c, depth-1)}}
	default:
		return &model.Crit{Op: "and", Kids: []*model.Crit{g.crit(c, depth-1), g.crit(c, depth-1)}}
	}
}

var dirs = []int{-5, -1, 0, 1, 7}

func (g *Gen) query(coll string, c *model.Coll, pCrit, pSort, pWindow float64) *model.Query {
	q := &model.Query{Coll: coll}
	if g.R.Chance(pCrit) {
		q.Crit = g.crit(c, g.R.Range(0, 3))
		if q.Crit.Op == "func" && g.R.Chance(0.5) {
			// keep: exercised through Query.MatchFunc
		}
	}
	if g.R.Chance(pSort) {
		q.SortCalls = true
		switch {
		case g.R.Chance(0.08):
			// Sort() without options
		default:
			n := 1
			if g.R.Chance(0.35) {
				n = g.R.Range(2, 3)
			}
			for i := 0; i < n; i++ {
				q.Sort = append(q.Sort, model.SortOpt{Field: g.pickPathFor(c, 0.4), Dir: dirs[g.R.Intn(len(dirs))]})
			}
			if n >= 2 && g.R.Chance(0.3) {
				// (field, _id): a total order, with the direction of _id chosen independently
				q.Sort = q.Sort[:2]
				q.Sort[1] = model.SortOpt{Field: "_id", Dir: dirs[g.R.Intn(len(dirs))]}
			}
		}
	}
	if g.R.Chance(pWindow) {
		total := 0
		if c != nil {
			total = len(c.Docs)
		}
		pick := func() int {
			if g.R.Chance(0.06) {
				return []int{math.MaxInt, math.MaxInt - 1, math.MaxInt / 2, math.MaxInt/2 + 1, math.MinInt, math.MaxInt32}[g.R.Intn(6)]
			}
			switch g.R.Intn(6) {
			case 0:
				return -1
			case 1:
				return 0
			case 2:
				return 1
			case 3:
				return total + g.R.Intn(3)
			default:
				if total > 0 {
					return g.R.Intn(total + 1)
				}
				return 2
			}
		}
		if g.R.Chance(0.7) {
			q.HasSkip, q.Skip = true, pick()
		}
		if g.R.Chance(0.7) {
			q.HasLimit, q.Limit = true, pick()
		}
	}
	return q
}

// updMap draws an update map; tag makes every affected document observably changed.
func (g *Gen) updMap(tag bool) map[string]val.V { return g.updMapFor(nil, tag) }

// updMapFor prefers paths related to the collection's indexes: the indexed path
// itself, its parent object, or a child of it.
func (g *Gen) updMapFor(mc *model.Coll, tag bool) map[string]val.V {
	out := map[string]val.V{}
	n := g.R.Range(1, 2)
	used := []string{}
	for i := 0; i < n; i++ {
		p := g.pickPath()
		if mc != nil && len(mc.Indexes) > 0 && g.R.Chance(0.45) {
			fs := mc.IndexFields()
			f := fs[g.R.Intn(len(fs))]
			if f == "_id" || strings.HasPrefix(f, "_id.") {
				continue // updates of _id are generated on purpose elsewhere
			}
			switch g.R.Intn(3) {
			case 0:
				p = f
			case 1:
				if j := strings.LastIndexByte(f, '.'); j > 0 {
					p = f[:j] // the parent object of an indexed dotted path
				} else {
					p = f
				}
			default:
				p = f + "." + []string{"a", "b", "z"}[g.R.Intn(3)] // a child of the indexed field
			}
		}
		if p == "_id" {
			continue
		}
		clash := false
		for _, u := range used {
			if u == p || strings.HasPrefix(u, p+".") || strings.HasPrefix(p, u+".") {
				clash = true
			}
		}
		if clash {
			continue
		}
		used = append(used, p)
		v := g.value()
		if mc != nil && g.R.Chance(0.5) {
			for _, f := range mc.IndexFields() { // sorted: generation must not depend on map order
				if strings.HasPrefix(f, p+".") {
					// object holding a fresh value under the indexed child path
					obj := map[string]interface{}{}
					model.Set(obj, strings.TrimPrefix(f, p+"."), g.value())
					v = obj
					break
				}
			}
		}
		out[p] = val.Wrap(v)
	}
	if tag {
		out["tag"] = val.Wrap(g.nextTag())
	}
	return out
}

var updStyles = []string{"inplace", "inplace", "copy", "fresh"}

// Next draws the next op given the current model state.
func (g *Gen) Next(m *model.DB) Op {
	c := &g.Cfg
	if len(g.twins) > 0 {
		for _, n := range g.twins[0] {
			if m.Colls[n] == nil {
				return Op{K: "CreateCollection", Coll: n}
			}
		}
	}
	if len(m.Colls) == 0 && g.R.Chance(0.8) {
		return Op{K: "CreateCollection", Coll: g.pickColl(m, false)}
	}
	if len(g.queue) > 0 {
		op := g.queue[0]
		g.queue = g.queue[1:]
		g.count++
		g.twinify(&op)
		g.decorate(&op)
		return op
	}
	kinds := make([]string, 0, len(c.W))
	for k := range c.W {
		kinds = append(kinds, k)
	}
	sort.Strings(kinds)
	ws := make([]int, len(kinds))
	for i, k := range kinds {
		ws[i] = c.W[k]
	}
	k := kinds[g.R.Pick(ws)]
	g.count++
	if c.Mode == "nasty" {
		if g.count >= c.NOps && g.R.Chance(0.5) {
			return Op{K: "AfterClose", Coll: g.pickColl(m, true)}
		}
		if g.R.Chance(0.05) {
			coll := g.pickColl(m, true)
			return Op{K: "DocAPI", Docs: []val.V{val.Wrap(g.doc(g.R.Bool()))}, Q: g.query(coll, m.Colls[coll], 1, 0, 0)}
		}
		if g.R.Chance(0.04) {
			coll := g.pickColl(m, true)
			if g.R.Bool() {
				return Op{K: "Insert", Coll: coll} // empty batch
			}
			return Op{K: "Update", Q: g.query(coll, m.Colls[coll], 0.5, 0.3, 0.3), Upd: map[string]val.V{}} // empty update map
		}
	}
	op := g.make(k, m)
	g.twinify(&op)
	g.denormalise(&op)
	g.decorate(&op)
	return op
}

// abandonable: the write operations (each is one store transaction).
var abandonable = map[string]bool{"Insert": true, "InsertOne": true, "Save": true, "UpdateById": true, "ReplaceById": true, "Update": true, "UpdateFunc": true,
	"Delete": true, "DeleteById": true, "CreateCollection": true, "DropCollection": true, "CreateIndex": true, "DropIndex": true, "Import": true, "CreateCollectionByQuery": true}

// denormalise marks some writes as passing narrow Go number types (int, int8,
// float32 ...) instead of the canonical ones: the stored result must be the same.
func (g *Gen) denormalise(op *Op) {
	if op.Note != "" || len(op.Colls) > 0 {
		return
	}
	switch op.K {
	case "Update", "UpdateFunc", "UpdateById":
		if len(op.Upd) > 0 && op.UpdStyle != "nil" && g.R.Chance(0.12) {
			op.Note = "narrow"
		}
	}
}

func (g *Gen) decorate(op *Op) {
	if len(op.Colls) > 0 {
		// a fault position means different things on twins with different
		// index sets; twin ops run fault-free (restarts happen between ops)
		return
	}
	switch g.Cfg.Faults {
	case "restarts":
		if abandonable[op.K] && g.R.Chance(0.05) {
			op.Abandon = g.R.Range(1, 20)
			if (op.K == "UpdateFunc" || op.K == "UpdateById") && g.R.Bool() {
				op.Abandon, op.Note = g.R.Range(1, 3), "abandon-cb"
			}
		}
	case "faults":
		if g.R.Chance(0.15) && op.K != "Reopen" && op.K != "CrashRestart" {
			op.Fault = g.R.Range(1, 12)
			if g.R.Chance(0.3) {
				op.Fault = g.R.Range(1, 60)
			}
		}
	case "crashes":
		if op.UpdStyle == "nil" {
			return // what nil means is not specified: no "entirely present" to settle a crash against
		}
		if abandonable[op.K] && g.R.Chance(0.06) {
			// the goroutine executing the operation unwinds in mid-flight
			op.Abandon = g.R.Range(1, 14)
			if g.R.Chance(0.3) {
				op.Abandon = g.R.Range(1, 60)
			}
			if (op.K == "UpdateFunc" || op.K == "UpdateById") && g.R.Bool() {
				op.Abandon, op.Note = g.R.Range(1, 3), "abandon-cb" // inside the caller's update function
			}
			return
		}
		if g.R.Chance(0.12) && op.K != "Reopen" && op.K != "CrashRestart" {
			op.Crash = g.R.Range(1, 14)
			if g.R.Chance(0.3) {
				op.Crash = g.R.Range(1, 60)
			}
			op.CrashPost = g.R.Chance(0.3)
		}
	}
}

func (g *Gen) make(k string, m *model.DB) Op {
	cfg := &g.Cfg
	existing := g.R.Chance(0.93)
	coll := g.pickColl(m, existing)
	mc := m.Colls[coll]
	if (cfg.Faults == "restarts" || cfg.Faults == "crashes") && g.R.Chance(0.06) {
		if g.R.Chance(0.5) {
			return Op{K: "Reopen"}
		}
		return Op{K: "CrashRestart"}
	}
	switch k {
	case "CreateCollection":
		return Op{K: k, Coll: g.pickColl(m, g.R.Chance(0.15))}
	case "DropCollection":
		if mc != nil && len(mc.Docs) > 0 && len(mc.Indexes) > 0 && g.R.Chance(0.4) {
			g.reincarnate(coll, mc)
		}
		return Op{K: k, Coll: coll}
	case "HasCollection":
		return Op{K: k, Coll: coll}
	case "ListCollections":
		return Op{K: k}
	case "Insert":
		n := g.R.Range(1, 4)
		if mc != nil && len(mc.Docs) >= cfg.MaxDocs {
			return g.make("DeleteById", m)
		}
		op := Op{K: k, Coll: coll}
		for i := 0; i < n; i++ {
			op.Docs = append(op.Docs, val.Wrap(g.doc(g.R.Chance(0.5))))
		}
		return op
	case "InsertOne":
		return Op{K: k, Coll: coll, Docs: []val.V{val.Wrap(g.doc(g.R.Chance(0.4)))}}
	case "Save":
		d := g.doc(false)
		if g.R.Chance(0.6) {
			d["_id"] = g.pickID(mc, 0.85)
		}
		return Op{K: k, Coll: coll, Docs: []val.V{val.Wrap(d)}, AsStruct: g.R.Bool()}
	case "FindAll":
		pSort, pWin := 0.35, 0.3
		if cfg.Mode == "sort" {
			pSort, pWin = 0.9, 0.55
		}
		return Op{K: k, Q: g.query(coll, mc, 0.85, pSort, pWin)}
	case "Derived":
		q := g.query(coll, mc, 0.7, 0.4, 0.4)
		op := Op{K: k, Q: q}
		if g.R.Chance(0.7) {
			op.StopAfter = g.R.Range(1, 4)
		}
		return op
	case "FindById":
		return Op{K: k, Coll: coll, ID: g.pickID(mc, 0.7)}
	case "DeleteById":
		return Op{K: k, Coll: coll, ID: g.pickID(mc, 0.75)}
	case "UpdateById":
		if !cfg.Determ && g.R.Chance(0.04) {
			return Op{K: k, Coll: coll, ID: g.pickID(mc, 0.9), UpdStyle: "nil"} // the update function returns nil
		}
		return Op{K: k, Coll: coll, ID: g.pickID(mc, 0.9), Upd: g.updMapFor(mc, g.R.Chance(0.5)), UpdStyle: updStyles[g.R.Intn(len(updStyles))]}
	case "ReplaceById":
		id := g.pickID(mc, 0.9)
		d := g.doc(false)
		d["_id"] = id
		return Op{K: k, Coll: coll, ID: id, Docs: []val.V{val.Wrap(d)}}
	case "Update", "UpdateFunc":
		pSort, pWin := 0.3, 0.3
		if cfg.Determ {
			pWin = 0
		}
		q := g.query(coll, mc, 0.8, pSort, pWin)
		if mc != nil && len(mc.Docs) > 0 && g.R.Chance(0.08) {
			// rewrite a field with the value it already has, in another numeric
			// representation and nothing else: the document must still be rewritten
			ids := mc.IDs()
			d := mc.Docs[ids[g.R.Intn(len(ids))]]
			for _, f := range val.SortedKeys(d) {
				var nv interface{}
				switch x := d[f].(type) {
				case int64:
					if x >= 0 && g.R.Bool() {
						nv = uint64(x)
					} else if x > -(1<<53) && x < 1<<53 {
						nv = float64(x)
					}
				case uint64:
					if x < 1<<53 {
						nv = float64(x)
					}
				case float64:
					if x == float64(int64(x)) && x > -(1<<53) && x < 1<<53 {
						nv = int64(x)
					}
				}
				if nv != nil && f != "_id" {
					q.HasSkip, q.HasLimit = false, false
					return Op{K: k, Q: q, Upd: map[string]val.V{f: val.Wrap(nv)}, UpdStyle: updStyles[g.R.Intn(len(updStyles))]}
				}
			}
		}
		if k == "UpdateFunc" && !cfg.Determ && g.R.Chance(0.08) {
			// an update function that returns nil
			q.HasSkip, q.HasLimit = false, false
			return Op{K: k, Q: q, UpdStyle: "nil"}
		}
		op := Op{K: k, Q: q, Upd: g.updMapFor(mc, true), UpdStyle: updStyles[g.R.Intn(len(updStyles))]}
		if mc != nil && len(mc.Indexes) > 0 && g.R.Chance(0.3) {
			// right behind it, a bulk operation which walks an index the first one had
			// to maintain: every document once, whatever the first one did to the entries
			fs := mc.IndexFields()
			f := fs[g.R.Intn(len(fs))]
			for _, cand := range fs {
				if _, touched := op.Upd[cand]; touched && g.R.Chance(0.7) {
					f = cand
				}
			}
			fq := &model.Query{Coll: coll, SortCalls: true, Sort: []model.SortOpt{{Field: f, Dir: dirs[g.R.Intn(len(dirs))]}}}
			g.queue = append(g.queue, Op{K: "UpdateFunc", Q: fq, Upd: map[string]val.V{"tag": val.Wrap(g.nextTag())}, UpdStyle: updStyles[g.R.Intn(len(updStyles))]})
		}
		return op
	case "Delete":
		pWin := 0.3
		if cfg.Determ {
			pWin = 0
		}
		return Op{K: k, Q: g.query(coll, mc, 0.9, 0.3, pWin)}
	case "CreateIndex":
		return Op{K: k, Coll: coll, Field: g.pickPath()}
	case "DropIndex", "HasIndex":
		f := g.pickPath()
		if mc != nil && len(mc.Indexes) > 0 && g.R.Chance(0.8) {
			fs := mc.IndexFields()
			f = fs[g.R.Intn(len(fs))]
		}
		return Op{K: k, Coll: coll, Field: f}
	case "ListIndexes":
		return Op{K: k, Coll: coll}
	case "Export":
		if len(g.files) > 0 && g.R.Chance(0.35) {
			// export again to a path that already holds an (often longer) export
			return Op{K: k, Coll: coll, File: g.files[g.R.Intn(len(g.files))]}
		}
		g.nfiles++
		f := fmt.Sprintf("exp%d.json", g.nfiles)
		g.files = append(g.files, f)
		return Op{K: k, Coll: coll, File: f}
	case "Import":
		target := g.pickColl(m, g.R.Chance(0.15))
		if len(g.files) == 0 || g.R.Chance(0.25) {
			kinds := []string{"missing", "dir", "empty", "truncated", "notarray", "scalars", "badid", "dupid", "nullelem", "nonobject", "cutboundary", "cutcomma", "openonly"}
			g.nfiles++
			return Op{K: k, Coll: target, File: fmt.Sprintf("bad%d.json", g.nfiles), FileKind: kinds[g.R.Intn(len(kinds))]}
		}
		return Op{K: k, Coll: target, File: g.files[len(g.files)-1-g.R.Intn(min(2, len(g.files)))]}
	case "CreateCollectionByQuery":
		target := g.pickColl(m, g.R.Chance(0.2))
		return Op{K: k, Coll: target, Q: g.query(coll, mc, 0.7, 0.3, 0)}
	case "Invalid":
		return g.invalid(m, coll, mc)
	}
	panic("gen: unknown kind " + k)
}

// reincarnate queues, behind a DropCollection, the re-creation of the same
// name with documents that reuse the old ids under other values and with the
// same indexes: whatever the drop left behind now points at live documents.
func (g *Gen) reincarnate(coll string, mc *model.Coll) {
	ids := mc.IDs()
	fields := mc.IndexFields()
	g.queue = append(g.queue, Op{K: "CreateCollection", Coll: coll})
	mkIdx := func() {
		for _, f := range fields {
			if g.R.Chance(0.8) {
				g.queue = append(g.queue, Op{K: "CreateIndex", Coll: coll, Field: f})
			}
		}
	}
	early := g.R.Bool()
	if early {
		mkIdx()
	}
	ins := Op{K: "Insert", Coll: coll}
	for _, id := range ids {
		if len(ins.Docs) >= g.Cfg.MaxDocs || g.R.Chance(0.2) {
			continue
		}
		d := g.doc(false)
		d["_id"] = id
		ins.Docs = append(ins.Docs, val.Wrap(d))
	}
	if len(ins.Docs) > 0 {
		g.queue = append(g.queue, ins)
	}
	if !early {
		mkIdx()
	}
	for _, f := range fields {
		if f == "_id" || g.R.Chance(0.5) {
			continue
		}
		q := &model.Query{Coll: coll, SortCalls: true, Sort: []model.SortOpt{{Field: f, Dir: dirs[g.R.Intn(len(dirs))]}}}
		g.queue = append(g.queue, Op{K: "FindAll", Q: q})
		break
	}
}

func min(a, b int) int {
	if a < b {
		return a
	}
	return b
}

var malformedIDs = []interface{}{"not-a-uuid", "123", "zzzzzzzz-zzzz-zzzz-zzzz-zzzzzzzzzzzz", "7d1d1b0c-5b3f-4f0e-9b55-2f1c5f6b8a1", i64(5), true, nil, "7d1d1b0c5b3f4f0e9b552f1c5f6b8a11x"}

// invalid draws an operation that must fail (or an id-rewrite attempt).
func (g *Gen) invalid(m *model.DB, coll string, mc *model.Coll) Op {
	if mc != nil && g.R.Chance(0.02) {
		// a large batch whose offending document comes late
		n := []int{130, 300, 1025, 1030, 1100}[g.R.Intn(5)]
		op := Op{K: "Insert", Coll: coll}
		for i := 0; i < n; i++ {
			op.Docs = append(op.Docs, val.Wrap(map[string]interface{}{"_id": g.newID(), "x": int64(i)}))
		}
		pos := n - 1 - g.R.Intn(n/10+1)
		d := op.Docs[pos].X.(map[string]interface{})
		switch g.R.Intn(3) {
		case 0:
			d["_id"] = op.Docs[g.R.Intn(pos)].X.(map[string]interface{})["_id"]
		case 1:
			d["_id"] = "not-a-uuid"
		default:
			if len(mc.Docs) > 0 {
				d["_id"] = g.pickID(mc, 1)
			} else {
				d["_id"] = "zz"
			}
		}
		return op
	}
	if g.R.Chance(0.08) {
		// a value the record encoding may refuse: a time whose zone offset is exactly
		// minus one minute, or beyond what 16 bits of minutes hold; at top level, in an
		// array, in an object. Refused or stored, never half of it, and the next
		// operations must not notice
		bad := []interface{}{tm(946684800, 0, -60, "m1"), tm(946684800, 5, 40000*60, "far"), tm(946684800, 0, -40000*60, "farw")}[g.R.Intn(3)]
		switch g.R.Intn(3) {
		case 1:
			bad = arr(i64(1), bad)
		case 2:
			bad = obj("k", bad)
		}
		if mc != nil && len(mc.Docs) > 0 && g.R.Chance(0.4) {
			return Op{K: "UpdateById", Coll: coll, ID: g.pickID(mc, 1), Upd: map[string]val.V{"s": val.Wrap(bad), "tag": val.Wrap(g.nextTag())}, UpdStyle: updStyles[g.R.Intn(len(updStyles))]}
		}
		n := g.R.Range(1, 4)
		op := Op{K: "Insert", Coll: coll}
		pos := g.R.Intn(n)
		for i := 0; i < n; i++ {
			d := g.doc(g.R.Bool())
			if i == pos {
				d["s"] = bad
			}
			op.Docs = append(op.Docs, val.Wrap(d))
		}
		return op
	}
	switch g.R.Intn(9) {
	case 0: // duplicate against the collection
		if mc != nil && len(mc.Docs) > 0 {
			n := g.R.Range(1, 3)
			op := Op{K: "Insert", Coll: coll}
			pos := g.R.Intn(n)
			for i := 0; i < n; i++ {
				d := g.doc(g.R.Bool())
				if i == pos {
					d["_id"] = g.pickID(mc, 1)
				}
				op.Docs = append(op.Docs, val.Wrap(d))
			}
			return op
		}
	case 1: // duplicate within the batch
		if g.R.Chance(0.25) {
			// the same document object twice (it has no _id: the second occurrence carries the id generated for the first)
			d := g.doc(false)
			return Op{K: "Insert", Coll: coll, Docs: []val.V{val.Wrap(g.doc(g.R.Bool())), val.Wrap(d), val.Wrap(d)}, Note: "sameobj:1:2"}
		}
		n := g.R.Range(2, 4)
		op := Op{K: "Insert", Coll: coll}
		id := g.newID()
		a, b := g.R.Intn(n), g.R.Intn(n)
		if a == b {
			b = (a + 1) % n
		}
		for i := 0; i < n; i++ {
			d := g.doc(g.R.Bool())
			if i == a || i == b {
				d["_id"] = id
			}
			op.Docs = append(op.Docs, val.Wrap(d))
		}
		return op
	case 2: // malformed id at some batch position
		n := g.R.Range(1, 4)
		op := Op{K: "Insert", Coll: coll}
		pos := g.R.Intn(n)
		for i := 0; i < n; i++ {
			d := g.doc(g.R.Bool())
			if i == pos {
				d["_id"] = malformedIDs[g.R.Intn(len(malformedIDs))]
			}
			op.Docs = append(op.Docs, val.Wrap(d))
		}
		return op
	case 3: // update producing an invalid document
		upd := map[string]val.V{"_expiresAt": val.Wrap("soon"), "tag": val.Wrap(g.nextTag())}
		if g.R.Bool() {
			upd = map[string]val.V{"_id": val.Wrap(malformedIDs[g.R.Intn(len(malformedIDs))]), "tag": val.Wrap(g.nextTag())}
		}
		if g.R.Chance(0.3) {
			// a dotted path through _id turns the id into an object
			upd = map[string]val.V{[]string{"_id.x", "_id.a.b", "_expiresAt.x"}[g.R.Intn(3)]: val.Wrap(g.value()), "tag": val.Wrap(g.nextTag())}
		}
		if g.R.Bool() {
			return Op{K: "UpdateById", Coll: coll, ID: g.pickID(mc, 0.95), Upd: upd, UpdStyle: updStyles[g.R.Intn(len(updStyles))]}
		}
		q := g.query(coll, mc, 0.5, 0.4, 0)
		k := "Update"
		if g.R.Bool() {
			k = "UpdateFunc"
		}
		return Op{K: k, Q: q, Upd: upd, UpdStyle: updStyles[g.R.Intn(len(updStyles))]}
	case 4: // attempt to rewrite _id to another valid id
		upd := map[string]val.V{"_id": val.Wrap(g.newID()), "tag": val.Wrap(g.nextTag())}
		if mc != nil && len(mc.Docs) > 1 && g.R.Chance(0.4) {
			upd["_id"] = val.Wrap(g.pickID(mc, 1)) // the id of another live document
		}
		target := g.pickID(mc, 0.95)
		if g.R.Chance(0.3) {
			// another spelling of the very same UUID (accepted by the UUID parser): the
			// stored _id would no longer be the key the document is reachable under
			alt := target
			switch g.R.Intn(4) {
			case 0:
				alt = strings.ToUpper(target)
			case 1:
				alt = "{" + target + "}"
			case 2:
				alt = "urn:uuid:" + target
			default:
				alt = strings.ReplaceAll(target, "-", "")
			}
			upd["_id"] = val.Wrap(alt)
			return Op{K: "UpdateById", Coll: coll, ID: target, Upd: upd, UpdStyle: updStyles[g.R.Intn(len(updStyles))]}
		}
		if g.R.Chance(0.6) {
			return Op{K: "UpdateById", Coll: coll, ID: g.pickID(mc, 0.95), Upd: upd, UpdStyle: updStyles[g.R.Intn(len(updStyles))]}
		}
		q := g.query(coll, mc, 0.6, 0.2, 0)
		q.HasLimit, q.Limit = true, 1
		q.SortCalls = true
		q.Sort = nil // Sort() by _id: the window is deterministic
		if g.R.Bool() {
			return Op{K: "UpdateFunc", Q: q, Upd: upd, UpdStyle: updStyles[g.R.Intn(len(updStyles))]}
		}
		return Op{K: "Update", Q: q, Upd: upd}
	case 5: // replace with mismatching id
		d := g.doc(true)
		return Op{K: "ReplaceById", Coll: coll, ID: g.pickID(mc, 0.9), Docs: []val.V{val.Wrap(d)}}
	case 6: // operations on a missing collection
		missing := "missing-" + coll
		switch g.R.Intn(10) {
		case 0:
			return Op{K: "Insert", Coll: missing, Docs: []val.V{val.Wrap(g.doc(g.R.Bool()))}}
		case 1:
			return Op{K: "FindAll", Q: g.query(missing, nil, 0.5, 0.3, 0.3)}
		case 2:
			return Op{K: "Derived", Q: g.query(missing, nil, 0.5, 0.3, 0.3)}
		case 3:
			return Op{K: "Update", Q: g.query(missing, nil, 0.5, 0.3, 0), Upd: g.updMap(true)}
		case 4:
			return Op{K: "Delete", Q: g.query(missing, nil, 0.5, 0.3, 0)}
		case 5:
			return Op{K: "CreateIndex", Coll: missing, Field: g.pickPath()}
		case 6:
			return Op{K: []string{"DropIndex", "HasIndex", "ListIndexes"}[g.R.Intn(3)], Coll: missing, Field: g.pickPath()}
		case 7:
			return Op{K: []string{"DeleteById", "FindById"}[g.R.Intn(2)], Coll: missing, ID: g.newID()}
		case 8:
			return Op{K: "UpdateById", Coll: missing, ID: g.newID(), Upd: g.updMap(true), UpdStyle: "inplace"}
		default:
			return Op{K: "DropCollection", Coll: missing}
		}
	case 7: // create existing / index sentinels
		if mc != nil {
			if len(mc.Indexes) > 0 && g.R.Bool() {
				fs := mc.IndexFields()
				return Op{K: "CreateIndex", Coll: coll, Field: fs[g.R.Intn(len(fs))]}
			}
			if g.R.Bool() {
				return Op{K: "DropIndex", Coll: coll, Field: "never-indexed"}
			}
			return Op{K: "CreateCollection", Coll: coll}
		}
	case 8: // create-by-query with missing source or existing target
		if g.R.Bool() {
			return Op{K: "CreateCollectionByQuery", Coll: g.pickColl(m, false), Q: g.query("missing-src", nil, 0.3, 0, 0)}
		}
		return Op{K: "CreateCollectionByQuery", Coll: g.pickColl(m, true), Q: g.query(coll, mc, 0.5, 0, 0)}
	}
	return Op{K: "DeleteById", Coll: coll, ID: g.newID()}
}

var _ = time.Now
