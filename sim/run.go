package sim

import (
	"encoding/json"
	"fmt"
	"os"
	"sort"
	"strings"

	"verif/sim/model"
	"verif/sim/val"
)

// Op is one step of a run file. A run is executed as a pure function of its ops.
type Op struct {
	K     string           `json:"k"`
	Coll  string           `json:"coll,omitempty"`
	Colls []string         `json:"colls,omitempty"` // twin collections: the op is applied to each
	Docs  []val.V          `json:"docs,omitempty"`
	ID    string           `json:"id,omitempty"`
	Q     *model.Query     `json:"q,omitempty"`
	Upd   map[string]val.V `json:"upd,omitempty"`
	// How updates are applied: "inplace" mutates and returns the callback's
	// argument, "copy" returns a modified copy, "fresh" returns a new document
	// built from the updated field map.
	UpdStyle  string `json:"updStyle,omitempty"`
	Field     string `json:"field,omitempty"`
	StopAfter int    `json:"stopAfter,omitempty"`
	File      string `json:"file,omitempty"`     // export/import file name inside the run's private dir
	FileKind  string `json:"fileKind,omitempty"` // import: "", "missing", "dir", "empty", "truncated", "notarray", "badid"
	AsStruct  bool   `json:"asDoc,omitempty"`    // Save: pass *Document (true) or map (false)
	Fault     int    `json:"fault,omitempty"`    // fail the k-th faultable store call of this op
	Crash     int    `json:"crash,omitempty"`    // crash before the k-th faultable store call of this op
	CrashPost bool   `json:"crashPost,omitempty"`
	// Abandon: the goroutine executing the op unwinds (a recovered panic) at the
	// k-th faultable store call, or, with Note "abandon-cb", inside the k-th
	// call of the update function
	Abandon int    `json:"abandon,omitempty"`
	Note    string `json:"note,omitempty"`
}

// Strings that are not valid UTF-8 (collection names, cursor keys, ids) would be
// mangled by encoding/json; they are hex-escaped in run files so that replay is exact.
func encStr(s string) string { return val.EncStr(s) }
func decStr(s string) string { return val.DecStr(s) }

type opAlias Op

func (o Op) MarshalJSON() ([]byte, error) {
	a := opAlias(o)
	a.ID, a.Coll, a.Field, a.Note = encStr(a.ID), encStr(a.Coll), encStr(a.Field), encStr(a.Note)
	if len(a.Colls) > 0 {
		cs := make([]string, len(a.Colls))
		for i, c := range a.Colls {
			cs[i] = encStr(c)
		}
		a.Colls = cs
	}
	return json.Marshal(a)
}

func (o *Op) UnmarshalJSON(b []byte) error {
	var a opAlias
	if err := json.Unmarshal(b, &a); err != nil {
		return err
	}
	a.ID, a.Coll, a.Field, a.Note = decStr(a.ID), decStr(a.Coll), decStr(a.Field), decStr(a.Note)
	for i := range a.Colls {
		a.Colls[i] = decStr(a.Colls[i])
	}
	*o = Op(a)
	return nil
}

// RunFile is a complete, explicit description of one simulated execution.
type RunFile struct {
	Prop    string            `json:"property"`
	Engine  string            `json:"engine"`
	Seed    uint64            `json:"seed"`
	RunIdx  uint64            `json:"run"`
	Backend string            `json:"backend"`
	Mode    string            `json:"mode"`
	Cfg     map[string]string `json:"cfg,omitempty"`
	IDSeed  uint64            `json:"idSeed"` // seeds the UUID generator seam
	Ops     []Op              `json:"ops"`
	// E-CONC: per-client op lists and the explicit schedule.
	Clients  [][]Op `json:"clients,omitempty"`
	Schedule []int  `json:"schedule,omitempty"`
	// Isolate: execute in a child process (the run kills the process executing it).
	Isolate bool `json:"isolate,omitempty"`
	// Filled when a violation was found.
	Violation *Violation `json:"violation,omitempty"`
}

// Violation is what a rule reports.
type Violation struct {
	Props []string `json:"props"` // properties whose statement the rule belongs to
	Rule  string   `json:"rule"`
	Msg   string   `json:"msg"`
	OpIdx int      `json:"op"`
	OpK   string   `json:"opKind,omitempty"`
	// Features: facts about the failing step used to fingerprint known findings.
	Features map[string]string `json:"features,omitempty"`
}

func (v *Violation) HasProp(p string) bool {
	for _, x := range v.Props {
		if x == p {
			return true
		}
	}
	return false
}

func (v *Violation) String() string {
	fs := make([]string, 0, len(v.Features))
	for k, x := range v.Features {
		fs = append(fs, k+"="+x)
	}
	sort.Strings(fs)
	return fmt.Sprintf("rule=%s props=%s op#%d(%s) [%s] %s", v.Rule, strings.Join(v.Props, ","), v.OpIdx, v.OpK, strings.Join(fs, " "), v.Msg)
}

func (rf *RunFile) Save(path string) error {
	b, err := json.MarshalIndent(rf, "", " ")
	if err != nil {
		return err
	}
	return os.WriteFile(path, b, 0o644)
}

func LoadRunFile(path string) (*RunFile, error) {
	b, err := os.ReadFile(path)
	if err != nil {
		return nil, err
	}
	rf := &RunFile{}
	if err := json.Unmarshal(b, rf); err != nil {
		return nil, err
	}
	return rf, nil
}

func (rf *RunFile) Clone() *RunFile {
	b, _ := json.Marshal(rf)
	out := &RunFile{}
	json.Unmarshal(b, out)
	return out
}

// docsOf unwraps the op's documents.
func (o *Op) docMaps() []model.Doc {
	out := make([]model.Doc, len(o.Docs))
	for i, d := range o.Docs {
		m, _ := d.X.(map[string]interface{})
		out[i] = val.CloneMap(m)
	}
	return out
}

func (o *Op) updMap() map[string]interface{} {
	out := make(map[string]interface{}, len(o.Upd))
	for k, v := range o.Upd {
		out[k] = val.Clone(v.X)
	}
	return out
}

// Brief renders an op in one line for samples and messages.
func (o *Op) Brief() string {
	var sb strings.Builder
	sb.WriteString(o.K)
	if o.Coll != "" {
		fmt.Fprintf(&sb, " coll=%q", o.Coll)
	}
	if len(o.Colls) > 0 {
		fmt.Fprintf(&sb, " twins=%q", o.Colls)
	}
	if o.ID != "" {
		fmt.Fprintf(&sb, " id=%s", o.ID)
	}
	if o.Field != "" {
		fmt.Fprintf(&sb, " field=%q", o.Field)
	}
	if len(o.Docs) > 0 {
		fmt.Fprintf(&sb, " docs=%d", len(o.Docs))
		if len(o.Docs) <= 2 {
			for _, d := range o.Docs {
				sb.WriteString(" " + val.String(d.X))
			}
		}
	}
	if o.Q != nil {
		fmt.Fprintf(&sb, " q{%s where %s", o.Q.Coll, o.Q.Crit.String())
		if o.Q.SortCalls {
			fmt.Fprintf(&sb, " sort=%v", o.Q.Sort)
		}
		if o.Q.HasSkip {
			fmt.Fprintf(&sb, " skip=%d", o.Q.Skip)
		}
		if o.Q.HasLimit {
			fmt.Fprintf(&sb, " limit=%d", o.Q.Limit)
		}
		sb.WriteString("}")
	}
	if len(o.Upd) > 0 {
		ks := make([]string, 0, len(o.Upd))
		for k := range o.Upd {
			ks = append(ks, k)
		}
		sort.Strings(ks)
		sb.WriteString(" upd{")
		for i, k := range ks {
			if i > 0 {
				sb.WriteString(",")
			}
			sb.WriteString(k + "=" + val.String(o.Upd[k].X))
		}
		sb.WriteString("}")
		if o.UpdStyle != "" {
			sb.WriteString(" style=" + o.UpdStyle)
		}
	}
	if o.StopAfter > 0 {
		fmt.Fprintf(&sb, " stopAfter=%d", o.StopAfter)
	}
	if o.File != "" {
		fmt.Fprintf(&sb, " file=%s/%s", o.File, o.FileKind)
	}
	if o.Fault > 0 {
		fmt.Fprintf(&sb, " FAULT@%d", o.Fault)
	}
	if o.Crash > 0 {
		fmt.Fprintf(&sb, " CRASH@%d post=%v", o.Crash, o.CrashPost)
	}
	if o.Abandon > 0 {
		fmt.Fprintf(&sb, " ABANDON@%d %s", o.Abandon, o.Note)
	}
	return sb.String()
}
