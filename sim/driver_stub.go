package sim

func CheckMain(args []string) int       { return 2 }
func ReplayMain(args []string) int      { return 2 }
func WorkerMain(args []string) int      { return 2 }
func CrashWorkerMain(args []string) int { return 2 }
func SelfTestMain(args []string) int    { return 2 }
