package sim

func CrashWorkerMain(args []string) int { return 2 }
func SelfTestMain(args []string) int    { return 2 }
