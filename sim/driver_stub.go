package sim

func SelfTestMain(args []string) int { return 2 }
