package sim

import (
	"sort"
	"strconv"
	"strings"
	"time"

	"verif/sim/model"
	"verif/sim/val"
)

// Minimise shrinks a failing run file while the same rule keeps firing for the
// same property: truncate after the failing op, delta-debug the op list, then
// simplify the arguments of the remaining ops.
func Minimise(rf *RunFile, prop string, budget time.Duration) *RunFile {
	if rf.Violation == nil {
		return rf
	}
	if fn, ok := engineMinimisers[rf.Engine]; ok {
		return fn(rf, prop, budget)
	}
	deadline := time.Now().Add(budget)
	rule := rf.Violation.Rule
	best := rf.Clone()
	test := func(c *RunFile) bool {
		if time.Now().After(deadline) {
			return false
		}
		cc := c.Clone()
		cc.Violation = nil
		o := ExecuteRunFile(cc)
		if o.Trouble != nil || o.V == nil || o.V.Rule != rule || !o.V.HasProp(prop) {
			return false
		}
		c.Violation = o.V
		return true
	}
	// position-enumeration run files protect their target and follow-up ops
	tgt := -1
	if t, ok := rf.Cfg["target"]; ok {
		tgt, _ = strconv.Atoi(t)
	}
	limit := func() int {
		if tgt >= 0 {
			return tgt
		}
		return len(best.Ops)
	}
	// 1. truncate
	if tgt < 0 && best.Violation.OpIdx+1 < len(best.Ops) {
		c := best.Clone()
		c.Ops = c.Ops[:best.Violation.OpIdx+1]
		if test(c) {
			best = c
		}
	}
	// 2. ddmin over ops
	for chunk := limit() / 2; chunk >= 1; chunk /= 2 {
		for start := 0; start+chunk <= limit(); {
			c := best.Clone()
			c.Ops = append(append([]Op{}, best.Ops[:start]...), best.Ops[start+chunk:]...)
			if tgt >= 0 {
				c.Cfg["target"] = strconv.Itoa(tgt - chunk)
			}
			if len(c.Ops) > 0 && test(c) {
				best = c
				if tgt >= 0 {
					tgt -= chunk
				}
			} else {
				start += chunk
			}
			if time.Now().After(deadline) {
				return best
			}
		}
	}
	// 3. simplify arguments
	changed := true
	for changed && time.Now().Before(deadline) {
		changed = false
		for i := range best.Ops {
			for _, mut := range opMutations(&best.Ops[i]) {
				c := best.Clone()
				mut(&c.Ops[i])
				if test(c) {
					best = c
					changed = true
					break
				}
			}
		}
	}
	return best
}

var engineMinimisers = map[string]func(rf *RunFile, prop string, budget time.Duration) *RunFile{}

// opMutations lists simplifications of one op.
func opMutations(op *Op) []func(*Op) {
	var ms []func(*Op)
	if len(op.Docs) > 1 && !strings.HasPrefix(op.K, "Idx") && !strings.HasPrefix(op.K, "Cur") {
		for i := range op.Docs {
			i := i
			ms = append(ms, func(o *Op) { o.Docs = append(append([]val.V{}, o.Docs[:i]...), o.Docs[i+1:]...) })
		}
	}
	if len(op.Colls) > 2 {
		for i := range op.Colls {
			i := i
			ms = append(ms, func(o *Op) { o.Colls = append(append([]string{}, o.Colls[:i]...), o.Colls[i+1:]...) })
		}
	}
	if op.Q != nil {
		if op.Q.SortCalls {
			ms = append(ms, func(o *Op) { o.Q.SortCalls, o.Q.Sort = false, nil })
			if len(op.Q.Sort) > 1 {
				for i := range op.Q.Sort {
					i := i
					ms = append(ms, func(o *Op) {
						o.Q.Sort = append(append([]model.SortOpt{}, o.Q.Sort[:i]...), o.Q.Sort[i+1:]...)
					})
				}
			}
		}
		if op.Q.HasSkip {
			ms = append(ms, func(o *Op) { o.Q.HasSkip, o.Q.Skip = false, 0 })
		}
		if op.Q.HasLimit {
			ms = append(ms, func(o *Op) { o.Q.HasLimit, o.Q.Limit = false, 0 })
		}
		if op.Q.Crit != nil {
			ms = append(ms, func(o *Op) { o.Q.Crit = nil })
			for _, path := range critPaths(op.Q.Crit, nil) {
				path := path
				ms = append(ms, func(o *Op) { o.Q.Crit = hoist(o.Q.Crit, path) })
			}
		}
	}
	if len(op.Upd) > 1 {
		ks := make([]string, 0, len(op.Upd))
		for k := range op.Upd {
			ks = append(ks, k)
		}
		sort.Strings(ks)
		for _, k := range ks {
			k := k
			ms = append(ms, func(o *Op) { delete(o.Upd, k) })
		}
	}
	if op.StopAfter > 1 {
		ms = append(ms, func(o *Op) { o.StopAfter = 1 })
	}
	return ms
}

// critPaths enumerates positions (as child-index paths) of inner nodes that can replace their parent.
func critPaths(c *model.Crit, prefix []int) [][]int {
	var out [][]int
	for i, k := range c.Kids {
		p := append(append([]int{}, prefix...), i)
		out = append(out, p)
		out = append(out, critPaths(k, p)...)
	}
	return out
}

// hoist replaces the parent of the node at path by that node.
func hoist(c *model.Crit, path []int) *model.Crit {
	if len(path) == 0 {
		return c
	}
	if len(path) == 1 {
		if path[0] < len(c.Kids) {
			return c.Kids[path[0]]
		}
		return c
	}
	if path[0] >= len(c.Kids) {
		return c
	}
	n := *c
	n.Kids = append([]*model.Crit{}, c.Kids...)
	n.Kids[path[0]] = hoist(c.Kids[path[0]], path[1:])
	return &n
}
