package sim

import (
	"bufio"
	"flag"
	"fmt"
	"os"
	"os/exec"
	"path/filepath"
	"runtime"
	"strconv"
	"strings"
	"time"

	"verif/sim/model"
	"verif/sim/rng"
	"verif/sim/val"
)

// E-CRASH on real files. The parent generates a deterministic history, runs it
// on the simulated disk to obtain the model state after every operation, then
// for each crash point starts a child process that executes the history on
// real bbolt / badger files, acknowledges every completed operation with one
// unbuffered write, and is SIGKILLed at the chosen point. The parent reopens
// the directory and requires the state after m or m+1 acknowledged operations.

func init() {
	engines["crashproc"] = func(job *Job, prop string, seed, idx uint64) *RunOutcome {
		return genCrashProc(job, prop, seed, idx)
	}
	engineReplayers["crashproc"] = runCrashProc
}

func genCrashProc(job *Job, prop string, seed, idx uint64) *RunOutcome {
	r := rng.Derive(seed, rng.HashString(prop), rng.HashString("crashproc"), idx)
	be := job.Backends[r.Intn(len(job.Backends))]
	modes := []string{"bulk", "audit", "ids", "indexcat", "catalog"}
	cfg := DrawCfg(r, modes[r.Intn(len(modes))], "none")
	cfg.Determ = true
	cfg.NOps = r.Range(2, 9)
	for _, k := range []string{"Export", "Import", "Derived", "FindAll", "HasCollection", "ListCollections", "HasIndex", "ListIndexes", "FindById"} {
		cfg.W[k] = 0
	}
	rf := &RunFile{Prop: prop, Engine: "crashproc", Seed: seed, RunIdx: idx, Backend: be, Mode: cfg.Mode, IDSeed: r.U64(), Cfg: map[string]string{"faults": "none"}}
	cfgFromExecOpt(ExecOpt{AuditEvery: 0, FullCompare: true}, rf.Cfg)
	maxPoints := 10
	if v := job.Params["points"]; v != "" {
		maxPoints, _ = strconv.Atoi(v)
	}
	rf.Cfg["points"] = strconv.Itoa(maxPoints)
	rf.Cfg["pointSeed"] = strconv.FormatUint(r.U64(), 10)
	if job.Params["strace"] == "1" && be == "bbolt" {
		rf.Cfg["strace"] = "1"
	}
	// generate the history against the simulated disk
	out := &RunOutcome{RF: rf}
	dir, err := scratchDir()
	if err != nil {
		out.Trouble = err
		return out
	}
	defer os.RemoveAll(dir)
	mb, _ := MakeBackend("mem-sw-livecur", dir)
	e, err := NewExec(mb, dir, rf.IDSeed, ExecOpt{})
	if err != nil {
		out.Trouble = err
		return out
	}
	g := NewGen(r, cfg)
	for i := 0; i < cfg.NOps; i++ {
		o := g.Next(e.M)
		rf.Ops = append(rf.Ops, o)
		if !e.Step(i, &rf.Ops[len(rf.Ops)-1]) {
			break
		}
	}
	if e.V == nil && be == "badger-disk" && r.Chance(0.3) {
		// one operation larger than the (small) badger's transaction size limit: the
		// unchanged code rejects it as a whole
		if names := e.M.CollNames(); len(names) > 0 {
			big := Op{K: "Insert", Coll: names[r.Intn(len(names))]}
			pad := strings.Repeat("p", 700)
			for i := 0; i < 1100; i++ {
				big.Docs = append(big.Docs, val.Wrap(map[string]interface{}{"_id": g.newID(), "x": int64(i), "pad": pad}))
			}
			at := r.Intn(len(rf.Ops) + 1)
			rf.Ops = append(rf.Ops[:at], append([]Op{big}, rf.Ops[at:]...)...)
			// re-run the history from scratch so that later ops are checked in the new order
			e.Finish()
			mb2, _ := MakeBackend("mem-sw-livecur", dir)
			e2, err2 := NewExec(mb2, dir, rf.IDSeed, ExecOpt{})
			if err2 == nil {
				for i := range rf.Ops {
					op := rf.Ops[i]
					if !e2.Step(i, &op) {
						break
					}
				}
				e2.Finish()
				e = e2
			}
		}
	}
	e.Finish()
	if e.V != nil {
		out.V, out.Stats = e.V, e.Stats
		rf.Engine = "hist"
		rf.Backend = "mem-sw-livecur"
		return out
	}
	return runCrashProc(rf)
}

type crashPoint struct {
	op   int
	k    int
	post bool
	sys  int    // >0: kill at the sys-th invocation of file syscall sysName (strace), op/k unused
	name string // pwrite64 | fdatasync
}

// reference run on the simulated disk: model states and per-op call counts.
func crashReference(rf *RunFile, skip map[int]bool) (states []*model.DB, calls []int, err error) {
	dir, err := scratchDir()
	if err != nil {
		return nil, nil, err
	}
	defer os.RemoveAll(dir)
	mb, _ := MakeBackend("mem-sw-livecur", dir)
	e, err := NewExec(mb, dir, rf.IDSeed, ExecOpt{TraceStates: true})
	if err != nil {
		return nil, nil, err
	}
	defer e.Finish()
	states = append(states, e.M.Clone())
	for i := range rf.Ops {
		op := rf.Ops[i]
		if skip[i] {
			// the real backend rejects this operation for capacity (a documented
			// backend property): it has no effect there
			calls = append(calls, 0)
			states = append(states, e.M.Clone())
			continue
		}
		if !e.Step(i, &op) {
			return nil, nil, fmt.Errorf("reference run violated %s", e.V.Rule)
		}
		calls = append(calls, e.targetFCalls)
		states = append(states, e.M.Clone())
	}
	return states, calls, nil
}

func runCrashProc(rf *RunFile) *RunOutcome {
	out := &RunOutcome{RF: rf, Stats: NewStats(), NOps: len(rf.Ops)}
	exe, _ := os.Executable()
	// baseline: one clean execution on the real backend tells which operations it
	// rejects for capacity
	skip := map[int]bool{}
	{
		parent, err := scratchDir()
		if err != nil {
			out.Trouble = err
			return out
		}
		dataDir := filepath.Join(parent, "db")
		os.Mkdir(dataDir, 0o755)
		_, _, werr := spawnCrashWorker(exe, rf, dataDir, crashPoint{op: -1}, 0)
		os.RemoveAll(parent)
		if werr != nil {
			out.Trouble = werr
			return out
		}
		for i := range lastWorkerCaps {
			skip[i] = true
			out.Stats.Probes["crashproc-capacity-rejected-op"]++
		}
	}
	states, calls, err := crashReference(rf, skip)
	if err != nil {
		out.Trouble = err
		return out
	}
	// crash points
	var points []crashPoint
	if p := rf.Cfg["point"]; p != "" {
		var cp crashPoint
		var post int
		fmt.Sscanf(p, "%d/%d/%d/%d/%s", &cp.op, &cp.k, &post, &cp.sys, &cp.name)
		cp.post = post == 1
		points = []crashPoint{cp}
	} else {
		for i, n := range calls {
			for k := 1; k <= n; k++ {
				points = append(points, crashPoint{op: i, k: k}, crashPoint{op: i, k: k, post: true})
			}
		}
		maxPoints, _ := strconv.Atoi(rf.Cfg["points"])
		ps, _ := strconv.ParseUint(rf.Cfg["pointSeed"], 10, 64)
		pr := rng.New(ps)
		if maxPoints > 0 && len(points) > maxPoints {
			// sample without replacement, biased to commit positions (last calls of an op)
			sel := map[int]bool{}
			var chosen []crashPoint
			for len(chosen) < maxPoints {
				j := pr.Intn(len(points))
				if pr.Chance(0.4) {
					// move to the commit of that op
					op := points[j].op
					for jj := range points {
						if points[jj].op == op && points[jj].k == calls[op] && points[jj].post == pr.Bool() {
							j = jj
						}
					}
				}
				if !sel[j] {
					sel[j] = true
					chosen = append(chosen, points[j])
				}
			}
			points = chosen
		} else {
			out.Stats.Probes["crashproc-exhaustive-history"]++
		}
		points = append(points, crashPoint{op: -1}) // no crash: clean completion, reopen must give S_n
		if rf.Cfg["strace"] == "1" {
			counts := countFileSyscalls(exe, rf)
			if counts["pwrite64"] > 0 && counts["fdatasync"] > 0 {
				out.Stats.Probes["strace-available"]++
				if maxPoints == 0 {
					// every file-syscall position of the history
					for _, name := range []string{"pwrite64", "fdatasync"} {
						for i := 1; i <= counts[name]; i++ {
							points = append(points, crashPoint{op: -1, sys: i, name: name})
						}
					}
				} else {
					for i := 0; i < 6; i++ {
						name := []string{"pwrite64", "fdatasync"}[pr.Intn(2)]
						points = append(points, crashPoint{op: -1, sys: 1 + pr.Intn(counts[name]), name: name})
					}
				}
			} else {
				out.Stats.Probes["strace-unavailable"]++
			}
		}
	}
	for _, cp := range points {
		v, trouble := crashOnce(exe, rf, states, cp, out.Stats)
		if trouble != nil {
			out.Trouble = trouble
			return out
		}
		out.Evals++
		out.Stats.Checks["crash-enum"]++
		if v != nil {
			post := 0
			if cp.post {
				post = 1
			}
			rf.Cfg["point"] = fmt.Sprintf("%d/%d/%d/%d/%s", cp.op, cp.k, post, cp.sys, cp.name)
			out.V = v
			return out
		}
	}
	return out
}

func workerRunFilePath(dir string) string { return filepath.Join(dir, "run.json") }

// spawn the worker; returns acks and whether it was killed.
var lastWorkerCaps map[int]bool // ops acknowledged as "failed for backend capacity" by the last worker

func spawnCrashWorker(exe string, rf *RunFile, dataDir string, cp crashPoint, straceN int) (acks int, killed bool, err error) {
	lastWorkerCaps = map[int]bool{}
	runPath := filepath.Join(filepath.Dir(dataDir), "run-"+filepath.Base(dataDir)+".json")
	c := rf.Clone()
	c.Violation = nil
	if err := c.Save(runPath); err != nil {
		return 0, false, err
	}
	defer os.Remove(runPath)
	args := []string{"crashworker", "--file", runPath, "--dir", dataDir, "--op", strconv.Itoa(cp.op), "--k", strconv.Itoa(cp.k)}
	if cp.post {
		args = append(args, "--post")
	}
	var cmd *exec.Cmd
	if straceN > 0 {
		file := filepath.Join(dataDir, "data.db")
		// strace counts invocations per traced thread: the worker locks its only
		// working goroutine to one OS thread, so this is the N-th invocation of the process
		sargs := []string{"-f", "-o", "/dev/null", "-P", file, "-e", "trace=" + cp.name,
			"-e", fmt.Sprintf("inject=%s:signal=SIGKILL:when=%d", cp.name, straceN), exe}
		cmd = exec.Command("strace", append(sargs, args...)...)
	} else {
		cmd = exec.Command(exe, args...)
	}
	cmd.Env = append(os.Environ(), "GOMAXPROCS=2", "GOMEMLIMIT=2GiB")
	stdout, err := cmd.StdoutPipe()
	if err != nil {
		return 0, false, err
	}
	cmd.Stderr = nil
	if err := cmd.Start(); err != nil {
		return 0, false, err
	}
	done := make(chan struct{})
	go func() {
		select {
		case <-done:
		case <-time.After(120 * time.Second):
			cmd.Process.Kill()
		}
	}()
	sc := bufio.NewScanner(stdout)
	bad := ""
	for sc.Scan() {
		line := sc.Text()
		if strings.HasPrefix(line, "ACK ") {
			if strings.HasSuffix(line, " cap") {
				lastWorkerCaps[acks] = true
			}
			acks++
		} else if strings.HasPrefix(line, "WORKER-") {
			bad = line
		}
	}
	werr := cmd.Wait()
	close(done)
	if bad != "" {
		return acks, false, fmt.Errorf("crash worker: %s", bad)
	}
	if werr != nil {
		if ee, ok := werr.(*exec.ExitError); ok {
			if !ee.Exited() || ee.ExitCode() == 137 || ee.ExitCode() == -1 {
				return acks, true, nil
			}
			return acks, false, fmt.Errorf("crash worker exited with %d", ee.ExitCode())
		}
		return acks, false, werr
	}
	return acks, false, nil
}

// countFileSyscalls runs the history to completion under strace and counts the traced calls.
func countFileSyscalls(exe string, rf *RunFile) map[string]int {
	if _, err := exec.LookPath("strace"); err != nil {
		return nil
	}
	parent, err := scratchDir()
	if err != nil {
		return nil
	}
	defer os.RemoveAll(parent)
	dataDir := filepath.Join(parent, "db")
	os.Mkdir(dataDir, 0o755)
	runPath := filepath.Join(parent, "run.json")
	c := rf.Clone()
	c.Violation = nil
	c.Save(runPath)
	logPath := filepath.Join(parent, "strace.log")
	cmd := exec.Command("strace", "-f", "-o", logPath, "-P", filepath.Join(dataDir, "data.db"), "-e", "trace=pwrite64,fdatasync,ftruncate,fallocate",
		exe, "crashworker", "--file", runPath, "--dir", dataDir, "--op", "-1", "--k", "0")
	cmd.Env = append(os.Environ(), "GOMAXPROCS=2")
	if err := cmd.Run(); err != nil {
		return nil
	}
	b, err := os.ReadFile(logPath)
	if err != nil {
		return nil
	}
	n := map[string]int{}
	for _, l := range strings.Split(string(b), "\n") {
		for _, name := range []string{"pwrite64", "fdatasync", "ftruncate", "fallocate"} {
			if strings.Contains(l, name+"(") {
				n[name]++
			}
		}
	}
	return n
}

func crashOnce(exe string, rf *RunFile, states []*model.DB, cp crashPoint, st *Stats) (*Violation, error) {
	parent, err := scratchDir()
	if err != nil {
		return nil, err
	}
	defer os.RemoveAll(parent)
	dataDir := filepath.Join(parent, "db")
	if err := os.Mkdir(dataDir, 0o755); err != nil {
		return nil, err
	}
	acks, killed, err := spawnCrashWorker(exe, rf, dataDir, cp, cp.sys)
	if err != nil {
		return nil, err
	}
	n := len(rf.Ops)
	if acks > n {
		return nil, fmt.Errorf("worker acknowledged %d ops of %d", acks, n)
	}
	switch {
	case cp.sys > 0 && killed:
		st.Fired["kill-at-file-syscall"]++
	case killed:
		st.Fired["kill-at-store-call"]++
		if cp.op >= 0 && cp.k > 1 {
			st.Probes["crash-with-calls-in-flight"]++
		}
	default:
		st.Probes["clean-completion-reopen"]++
	}
	// reopen the directory
	var be Backend
	switch rf.Backend {
	case "bbolt":
		be = &BoltBackend{Dir: dataDir}
	case "badger-disk":
		be = &BadgerBackend{Dir: dataDir}
	case "badger-disk-default":
		be = &BadgerBackend{Dir: dataDir, Default: true}
	default:
		return nil, fmt.Errorf("crashproc: backend %s has no files", rf.Backend)
	}
	e, err := NewExec(be, parent, rf.IDSeed, ExecOpt{FullCompare: true})
	if err != nil {
		return &Violation{Props: []string{"C05"}, Rule: "C05/reopen-error", Msg: fmt.Sprintf("after a kill at %+v (acks=%d) the database cannot be reopened: %v", cp, acks, err), OpIdx: cp.op, Features: map[string]string{"backend": rf.Backend}}, nil
	}
	defer e.Finish()
	e.opIdx = acks
	candidates := []int{acks}
	if killed && acks < n {
		candidates = append(candidates, acks+1)
	}
	var msgs []string
	for _, m := range candidates {
		e.V = nil
		e.M = states[m].Clone()
		e.compareAll("", nil, "kill and reopen")
		if e.V == nil {
			e.Audit()
		}
		if e.V == nil {
			e.checked("crash-settled")
			if m == acks {
				st.Probes["crash-op-absent"]++
			} else {
				st.Probes["crash-op-present"]++
			}
			st.Merge(e.Stats)
			return nil, nil
		}
		if e.V.Rule == "C20/panic" {
			return e.V, nil
		}
		msgs = append(msgs, fmt.Sprintf("vs state after %d ops: %s: %s", m, e.V.Rule, e.V.Msg))
	}
	feats := map[string]string{"backend": rf.Backend}
	if cp.sys > 0 {
		feats["at"] = "file-syscall"
	} else {
		feats["at"] = "store-call"
	}
	opk := ""
	if acks < n {
		opk = rf.Ops[acks].K
		feats["inflight"] = opk
	}
	return &Violation{Props: []string{"C05"}, Rule: "C05/kill-atomicity", OpIdx: acks, OpK: opk, Features: feats,
		Msg: fmt.Sprintf("process killed at %+v after %d acknowledged operations; after reopening, the database matches neither acceptable state: %s", cp, acks, strings.Join(msgs, " || "))}, nil
}

// CrashWorkerMain is the child: execute the history on real files, ACK each
// completed op, die at the chosen store call.
func CrashWorkerMain(args []string) int {
	fs := flag.NewFlagSet("crashworker", flag.ExitOnError)
	file := fs.String("file", "", "")
	dir := fs.String("dir", "", "")
	opIdx := fs.Int("op", -1, "")
	k := fs.Int("k", 0, "")
	post := fs.Bool("post", false, "")
	fs.Parse(args)
	// every file syscall of the history is issued from this goroutine: pin it to
	// one OS thread so that "the N-th pwrite64" means the same thing in every execution
	runtime.LockOSThread()
	rf, err := LoadRunFile(*file)
	if err != nil {
		fmt.Println("WORKER-ERROR", err)
		return 3
	}
	var be Backend
	switch rf.Backend {
	case "bbolt":
		be = &BoltBackend{Dir: *dir}
	case "badger-disk":
		be = &BadgerBackend{Dir: *dir}
	case "badger-disk-default":
		be = &BadgerBackend{Dir: *dir, Default: true}
	default:
		fmt.Println("WORKER-ERROR bad backend")
		return 3
	}
	scratch, _ := os.MkdirTemp(filepath.Dir(*dir), "wk-")
	e, err := NewExec(be, scratch, rf.IDSeed, ExecOpt{})
	if err != nil {
		fmt.Println("WORKER-ERROR", err)
		return 3
	}
	e.Ctl.CrashKill = true
	for i := range rf.Ops {
		op := rf.Ops[i]
		op.Fault, op.Crash, op.CrashPost = 0, 0, false
		if i == *opIdx {
			op.Crash, op.CrashPost = *k, *post
		}
		if !e.Step(i, &op) {
			// the history misbehaves on the real backend even without a crash:
			// that is E-HIST's finding; the crash check cannot proceed
			fmt.Println("WORKER-VIOLATION", e.V.Rule, firstLine(e.V.Msg))
			return 3
		}
		if e.OpHitCapacity {
			os.Stdout.Write([]byte(fmt.Sprintf("ACK %d cap\n", i)))
		} else {
			os.Stdout.Write([]byte(fmt.Sprintf("ACK %d\n", i)))
		}
	}
	e.Finish()
	return 0
}
