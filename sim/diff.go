package sim

import (
	"fmt"
	"os"
	"sort"
	"strings"

	"github.com/ostafen/clover/v2/store"

	"verif/sim/rng"
	"verif/sim/val"
)

// ---- E-DIFF: the same fault-free history on every shipped backend ----------------------------------

func init() {
	engines["diff"] = genDiff
	engineReplayers["diff"] = runDiff
	engines["cursor"] = genCursor
	engineReplayers["cursor"] = runCursor
}

var diffBackends = []string{"bbolt", "badger-disk", "badger-mem"}

func genDiff(job *Job, prop string, seed, idx uint64) *RunOutcome {
	r := rng.Derive(seed, rng.HashString(prop), rng.HashString("diff"), idx)
	modes := []string{"query", "bulk", "audit", "sort", "derived", "ids", "catalog", "indexcat", "nasty"}
	cfg := DrawCfg(r, modes[r.Intn(len(modes))], "none")
	cfg.NOps = r.Range(8, 36)
	cfg.W["Export"], cfg.W["Import"] = 0, 0
	rf := &RunFile{Prop: prop, Engine: "diff", Seed: seed, RunIdx: idx, Backend: "bbolt+badger-disk+badger-mem", Mode: cfg.Mode, IDSeed: r.U64(), Cfg: map[string]string{"faults": "none"}}
	cfgFromExecOpt(ExecOpt{AuditEvery: 0, FullCompare: false}, rf.Cfg)
	// generate against the simulated disk
	out := &RunOutcome{RF: rf}
	dir, err := scratchDir()
	if err != nil {
		out.Trouble = err
		return out
	}
	defer os.RemoveAll(dir)
	mb, _ := MakeBackend("mem-sw-livecur", dir)
	e, err := NewExec(mb, dir, rf.IDSeed, ExecOpt{})
	if err != nil {
		out.Trouble = err
		return out
	}
	g := NewGen(r, cfg)
	for i := 0; i < cfg.NOps; i++ {
		o := g.Next(e.M)
		rf.Ops = append(rf.Ops, o)
		if !e.Step(i, &rf.Ops[len(rf.Ops)-1]) {
			break
		}
	}
	e.Finish()
	if e.V != nil {
		out.V, out.Stats = e.V, e.Stats
		rf.Engine, rf.Backend = "hist", "mem-sw-livecur"
		return out
	}
	return runDiff(rf)
}

func runDiff(rf *RunFile) *RunOutcome {
	out := &RunOutcome{RF: rf, Stats: NewStats(), NOps: len(rf.Ops)}
	var logs [][]string
	diffBackends := diffBackends
	if rf.Cfg["backends"] != "" {
		diffBackends = strings.Split(rf.Cfg["backends"], "+")
	}
	for _, name := range diffBackends {
		dir, err := scratchDir()
		if err != nil {
			out.Trouble = err
			return out
		}
		be, err := MakeBackend(name, dir)
		if err != nil {
			os.RemoveAll(dir)
			out.Trouble = err
			return out
		}
		e, err := NewExec(be, dir, rf.IDSeed, execOptFromCfg(rf.Cfg))
		if err != nil {
			be.Destroy()
			os.RemoveAll(dir)
			out.Trouble = err
			return out
		}
		e.RecordObs = true
		for i := range rf.Ops {
			op := rf.Ops[i]
			if !e.Step(i, &op) {
				break
			}
		}
		if e.V == nil && !e.closed {
			e.cur = nil
			e.Audit() // stored key sets must agree with the canonical rebuild on every backend
		}
		e.Finish()
		be.Destroy()
		os.RemoveAll(dir)
		out.Stats.Merge(e.Stats)
		if e.V != nil {
			// a backend disagrees with the model: also a difference between backends unless all do
			e.V.Features["diffBackend"] = name
			if !e.V.HasProp("C15") {
				e.V.Props = append(e.V.Props, "C15")
			}
			out.V = e.V
			return out
		}
		logs = append(logs, e.Obs)
	}
	out.Stats.Checks["diff"]++
	for b := 1; b < len(logs); b++ {
		n := len(logs[0])
		if len(logs[b]) < n {
			n = len(logs[b])
		}
		for i := 0; i < n; i++ {
			if logs[0][i] != logs[b][i] {
				out.V = &Violation{Props: []string{"C15"}, Rule: "C15/diff", OpIdx: i, Msg: fmt.Sprintf("observation #%d differs: %s: %s  ||  %s: %s", i, diffBackends[0], clipStr(logs[0][i]), diffBackends[b], clipStr(logs[b][i])), Features: map[string]string{"backend": diffBackends[b]}}
				return out
			}
		}
		if len(logs[0]) != len(logs[b]) {
			out.V = &Violation{Props: []string{"C15"}, Rule: "C15/diff", Msg: fmt.Sprintf("%s made %d observations, %s made %d", diffBackends[0], len(logs[0]), diffBackends[b], len(logs[b])), Features: map[string]string{"backend": diffBackends[b]}}
			return out
		}
	}
	out.Stats.Probes["diff-observations"] += len(logs[0])
	return out
}

func clipStr(s string) string {
	if len(s) > 300 {
		return s[:300] + "..."
	}
	return s
}

// ---- cursor contract -------------------------------------------------------------------------------------
//
// Ops: CurSet{ID=key hex-free string, Note=value}  CurDel{ID}  CurCommit
//      CurSeek{ID=target, Field="1" forward / "0" reverse}: seek then iterate to the end.

var cursorKeyPool = []string{"", "a", "a\x00", "a\x00b", "a\xff", "ab", "abc", "b", "c:x;d:1", "c:x;i:f;t:1", "coll:x", "\xff", "\xff\xff", "m", "z"}

func genCursor(job *Job, prop string, seed, idx uint64) *RunOutcome {
	r := rng.Derive(seed, rng.HashString(prop), rng.HashString("cursor"), idx)
	be := job.Backends[r.Intn(len(job.Backends))]
	rf := &RunFile{Prop: prop, Engine: "cursor", Seed: seed, RunIdx: idx, Backend: be, Mode: "cursor", Cfg: map[string]string{}}
	pool := append([]string{}, cursorKeyPool[1:]...)
	for i := 0; i < 6; i++ {
		b := make([]byte, r.Range(1, 4))
		for j := range b {
			b[j] = []byte{0, 1, 'a', 'b', 'z', 0xfe, 0xff}[r.Intn(7)]
		}
		pool = append(pool, string(b))
	}
	n := r.Range(0, 14)
	for i := 0; i < n; i++ {
		v := ""
		if r.Chance(0.5) {
			v = fmt.Sprintf("v%d", i)
		}
		rf.Ops = append(rf.Ops, Op{K: "CurSet", ID: pool[r.Intn(len(pool))], Note: v})
		if r.Chance(0.1) {
			rf.Ops = append(rf.Ops, Op{K: "CurDel", ID: pool[r.Intn(len(pool))]})
		}
	}
	committed := false
	ns := r.Range(3, 12)
	for i := 0; i < ns; i++ {
		if !committed && r.Chance(0.3) {
			rf.Ops = append(rf.Ops, Op{K: "CurCommit"})
			committed = true
		}
		t := pool[r.Intn(len(pool))]
		switch r.Intn(6) {
		case 0:
			t = ""
		case 1:
			t = "\xff\xff\xff"
		case 2:
			t += "\x00"
		}
		rf.Ops = append(rf.Ops, Op{K: "CurSeek", ID: t, Field: b01(r.Bool())})
	}
	return runCursor(rf)
}

func runCursor(rf *RunFile) *RunOutcome {
	out := &RunOutcome{RF: rf, Stats: NewStats(), NOps: len(rf.Ops)}
	dir, err := scratchDir()
	if err != nil {
		out.Trouble = err
		return out
	}
	defer os.RemoveAll(dir)
	be, err := MakeBackend(rf.Backend, dir)
	if err != nil {
		out.Trouble = err
		return out
	}
	defer be.Destroy()
	st, err := be.Open()
	if err != nil {
		out.Trouble = err
		return out
	}
	defer st.Close()
	var tx store.Tx
	tx, err = st.Begin(true)
	if err != nil {
		out.Trouble = err
		return out
	}
	defer func() { tx.Rollback() }()
	writing := true
	model := map[string]string{}
	fail := func(i int, rule, msg string, feats map[string]string) {
		if feats == nil {
			feats = map[string]string{}
		}
		feats["backend"] = rf.Backend
		feats["inWritingTx"] = b01(writing)
		out.V = &Violation{Props: []string{"C15"}, Rule: rule, Msg: msg, OpIdx: i, OpK: rf.Ops[i].K, Features: feats}
	}
	for i := range rf.Ops {
		op := &rf.Ops[i]
		switch op.K {
		case "CurSet":
			if op.ID == "" {
				continue
			}
			var v []byte
			if op.Note != "" {
				v = []byte(op.Note)
			}
			if err := tx.Set([]byte(op.ID), v); err != nil {
				out.Trouble = fmt.Errorf("set: %v", err)
				return out
			}
			model[op.ID] = op.Note
		case "CurDel":
			if op.ID == "" {
				continue
			}
			if err := tx.Delete([]byte(op.ID)); err != nil {
				out.Trouble = fmt.Errorf("delete: %v", err)
				return out
			}
			delete(model, op.ID)
		case "CurCommit":
			if writing {
				if err := tx.Commit(); err != nil {
					out.Trouble = err
					return out
				}
				writing = false
				if tx, err = st.Begin(false); err != nil {
					out.Trouble = err
					return out
				}
			}
		case "CurSeek":
			out.Stats.Checks["cursor-contract"]++
			forward := op.Field == "1"
			keys := make([]string, 0, len(model))
			for k := range model {
				keys = append(keys, k)
			}
			sort.Strings(keys)
			var want []string
			if forward {
				j := sort.SearchStrings(keys, op.ID)
				want = keys[j:]
			} else {
				j := sort.Search(len(keys), func(x int) bool { return keys[x] > op.ID })
				for x := j - 1; x >= 0; x-- {
					want = append(want, keys[x])
				}
			}
			feats := map[string]string{"forward": b01(forward)}
			if len(want) == len(keys) && len(keys) > 0 {
				if forward {
					feats["target"] = "before-first"
				} else {
					feats["target"] = "after-last"
				}
			} else if len(want) == 0 {
				feats["target"] = "beyond-end"
			} else if _, present := model[op.ID]; present {
				feats["target"] = "present"
			} else {
				feats["target"] = "absent"
			}
			out.Stats.Probes["cursor-seek-"+feats["target"]]++
			cur, err := tx.Cursor(forward)
			if err != nil {
				fail(i, "C15/cursor-error", fmt.Sprintf("Cursor(%v): %v", forward, err), feats)
				break
			}
			var got []string
			var gotEmptyMismatch string
			func() {
				defer cur.Close()
				defer func() {
					if r := recover(); r != nil {
						fail(i, "C15/cursor-panic", fmt.Sprintf("cursor panicked: %v", r), feats)
					}
				}()
				cur.Seek([]byte(op.ID))
				for steps := 0; cur.Valid() && steps < 1000; cur.Next() {
					steps++
					it, err := cur.Item()
					if err != nil {
						fail(i, "C15/cursor-error", fmt.Sprintf("Item: %v", err), feats)
						return
					}
					got = append(got, string(it.Key))
					if w, ok := model[string(it.Key)]; ok && w != string(it.Value) {
						gotEmptyMismatch = fmt.Sprintf("key %q: value %q, expected %q", it.Key, it.Value, w)
					}
				}
			}()
			if out.V != nil {
				break
			}
			if strings.Join(got, "\x01") != strings.Join(want, "\x01") {
				hasEmpty := false
				for _, k := range want {
					if model[k] == "" {
						hasEmpty = true
					}
				}
				feats["emptyValues"] = b01(hasEmpty)
				fail(i, "C15/cursor-contract", fmt.Sprintf("Seek(%q) forward=%v then iterate: got %q, the contract (first key >= target / last key <= target, each key once in order, empty values visible) gives %q", op.ID, forward, got, want), feats)
				break
			}
			if gotEmptyMismatch != "" {
				fail(i, "C15/cursor-value", gotEmptyMismatch, feats)
			}
		}
		if out.V != nil {
			break
		}
	}
	return out
}

var _ = val.Wrap

// diffbig: a size-sweep history (thousands of documents, whole-collection
// operations) on bbolt and on badger opened through the shipped default
// badgerstore.Open(dir): capacity limits are backend properties, but the shipped
// defaults must carry the same workloads.
func init() {
	engines["diffbig"] = func(job *Job, prop string, seed, idx uint64) *RunOutcome {
		j := *job
		j.Backends = []string{"mem-sw-livecur"}
		j.Params = map[string]string{"maxN": "5000", "reads": "1", "genonly": "1"}
		o := genBigBulk(&j, prop, seed^0xd1ffb16, idx)
		if o.Trouble != nil || o.V != nil {
			return o
		}
		rf := o.RF
		rf.Engine = "diff"
		rf.Backend = "bbolt+badger-disk-default"
		rf.Cfg["backends"] = "bbolt+badger-disk-default"
		return runDiff(rf)
	}
}
