package sim

// PropInfo describes a claimed property for the driver and the evidence file.
type PropInfo struct {
	Level          string
	Rule           string
	Assumptions    []string
	RequiredProbes []string
}

var commonAssumptions = []string{
	"the reference model (sim/model, sim/val) states the documented semantics correctly; it shares no code with clover",
	"mem-* backends are a stub storage engine whose modes reproduce the shipped engines' transaction and cursor behaviours; bbolt and badger runs use the real engines, whose internal goroutines are not controlled",
	"a clean batch is evidence, not proof: the space is sampled by seeded search, not enumerated",
}

const histRule = "each evaluation is one simulated run: a seeded history of public API operations executed against clover (over the store decorator and a backend) and against the reference model, compared after every operation; generated from (seed, property, run index) by a splitmix64 stream; a run is non-trivial when at least one oracle clause belonging to this property was evaluated in it; distinct = distinct hash of (backend, explicit operation list, fault/crash positions, schedule)"

var propInfo = map[string]*PropInfo{
	"C01": {Level: "exploration", Rule: histRule, Assumptions: commonAssumptions, RequiredProbes: []string{"findall-nonempty", "query-served-by-index", "index-created-after-data", "index-created-before-data"}},
	"C02": {Level: "exploration", Rule: histRule + "; twin collections receive mirrored writes and differ only in their index sets", Assumptions: commonAssumptions, RequiredProbes: []string{"query-served-by-index", "reverse-cursor", "prefix-related-indexes-coexist", "sort-on-indexed-field"}},
	"C03": {Level: "exploration", Rule: histRule + "; plus size-sweep runs (0 ... 5000 documents, varied record sizes, index sets) ending in bulk operations, mostly on real bbolt", Assumptions: commonAssumptions, RequiredProbes: []string{"bulk-affected>0", "bulk-on-indexed", "bulk-rewrites-filter-field", "bulk-rewrites-sort-field", "drop-nonempty-indexed", "bigbulk-n>=1000", "bulk-over-1000-docs"}},
	"C06": {Level: "exploration", Rule: histRule, Assumptions: commonAssumptions, RequiredProbes: []string{"delete-absent-id", "drop-index-with-sibling", "prefix-related-indexes-coexist", "all-dropped-store-empty", "audit-index-scan"}},
	"C08": {Level: "exploration", Rule: histRule, Assumptions: commonAssumptions, RequiredProbes: []string{"sort-with-ties", "sort-desc", "sort-on-indexed-field", "window-proper"}},
	"C09": {Level: "exploration", Rule: histRule, Assumptions: commonAssumptions, RequiredProbes: []string{"count-via-counter", "foreach-stopped-early", "foreach-stopped-early-under-sort-node", "delete-absent-id"}},
	"C11": {Level: "exploration", Rule: histRule, Assumptions: commonAssumptions, RequiredProbes: []string{"clean-reopen", "findall-nonempty"}},
	"C12": {Level: "exploration", Rule: histRule, Assumptions: commonAssumptions, RequiredProbes: []string{"generated-id", "duplicate-id-within-batch", "duplicate-id-at-batch-position>0", "update-attempts-id-rewrite", "replace-id-mismatch"}},
	"C13": {Level: "exploration", Rule: histRule, Assumptions: commonAssumptions, RequiredProbes: []string{"all-dropped-store-empty", "drop-nonempty"}},
	"C14": {Level: "exploration", Rule: histRule, Assumptions: commonAssumptions, RequiredProbes: []string{"prefix-related-indexes-coexist", "drop-index-with-sibling", "sort-on-indexed-field"}},
	"C19": {Level: "exploration", Rule: histRule, Assumptions: append([]string{"export/import use real files in a private per-run directory; file faults are generated inputs (missing, directory, empty, truncated, ill-typed JSON), there is no seam under os.WriteFile/os.Open"}, commonAssumptions...), RequiredProbes: []string{"export-nonempty", "import-nonempty", "import-existing-name", "export-from-indexed"}},
	"C20": {Level: "exploration", Rule: histRule + "; every public call made by the run is wrapped in recover()", Assumptions: commonAssumptions, RequiredProbes: []string{"api-after-close", "query-served-by-index"}},
}

var propFamilies = map[string][]string{
	"C01": {"findall"},
	"C02": {"twin"},
	"C03": {"bulk", "callback"},
	"C04": {"no-effect", "fault-reported", "fault-enum"},
	"C05": {"crash-settled", "crash-enum"},
	"C06": {"audit", "rebuild-keyset"},
	"C07": {"linearizability", "conc"},
	"C08": {"sort", "window"},
	"C09": {"count", "exists", "findfirst", "foreach", "foreach-stop"},
	"C11": {"full-state", "findall", "findbyid"},
	"C12": {"ids", "findbyid"},
	"C13": {"catalog", "full-state"},
	"C14": {"index-catalog"},
	"C15": {"diff", "cursor-contract"},
	"C17": {"idx-scan"},
	"C19": {"export", "import", "import-failure"},
	"C20": {"public-call"},
}

var memAll = []string{"mem-sw-livecur", "mem-sw-livecur", "mem-sw-livecur", "mem-opt-snapcur", "mem-opt-snapcur", "mem-opt-snapcur", "mem-sw-snapcur", "mem-opt-livecur"}
var realAll = []string{"bbolt", "bbolt", "badger-mem", "badger-disk"}

var fullOpt = ExecOpt{AuditEvery: 1, FullCompare: true}

func histJobs(mode string, memQ, memT, realQ, realT int, memFaults, realFaults []string) []Job {
	return []Job{
		{Engine: "hist", Mode: mode, Backends: memAll, Faults: memFaults, Quick: memQ, Thorough: memT, Opt: fullOpt},
		{Engine: "hist", Mode: mode, Backends: realAll, Faults: realFaults, Quick: realQ, Thorough: realT, Opt: fullOpt},
	}
}

var stdMemFaults = []string{"none", "none", "faults", "restarts", "crashes"}
var stdRealFaults = []string{"none", "restarts"}

// JobsFor lists the jobs of a property's check.
func JobsFor(prop, tier string) []Job {
	switch prop {
	case "C01":
		return histJobs("query", 8000, 400000, 800, 30000, stdMemFaults, stdRealFaults)
	case "C02":
		return histJobs("twin", 4000, 200000, 500, 20000, []string{"none", "none", "restarts", "crashes"}, stdRealFaults)
	case "C03":
		return append(histJobs("bulk", 8000, 400000, 800, 30000, stdMemFaults, stdRealFaults),
			Job{Engine: "bigbulk", Backends: []string{"bbolt", "bbolt", "bbolt", "badger-disk", "badger-mem", "mem-sw-livecur", "mem-opt-snapcur"}, Quick: 260, Thorough: 6000, Params: map[string]string{"maxN": "5000"}})
	case "C06":
		return append(histJobs("audit", 8000, 400000, 800, 30000, stdMemFaults, stdRealFaults),
			Job{Engine: "bigbulk", Backends: []string{"bbolt", "bbolt", "badger-disk", "mem-sw-livecur"}, Quick: 100, Thorough: 3000, Params: map[string]string{"maxN": "2500"}})
	case "C08":
		return append(histJobs("sort", 8000, 400000, 800, 30000, []string{"none", "none", "restarts", "faults"}, stdRealFaults),
			Job{Engine: "bigbulk", Backends: []string{"mem-sw-livecur", "mem-opt-snapcur", "bbolt", "badger-mem"}, Quick: 160, Thorough: 4000, Params: map[string]string{"maxN": "2500", "reads": "1"}})
	case "C09":
		return append(histJobs("derived", 8000, 400000, 800, 30000, stdMemFaults, stdRealFaults),
			Job{Engine: "bigbulk", Backends: []string{"mem-sw-livecur", "mem-opt-snapcur", "bbolt", "badger-mem"}, Quick: 120, Thorough: 3000, Params: map[string]string{"maxN": "1500", "reads": "1", "derived": "1"}})
	case "C11":
		return histJobs("roundtrip", 8000, 400000, 800, 30000, []string{"none", "restarts", "crashes"}, []string{"restarts"})
	case "C12":
		return histJobs("ids", 8000, 400000, 800, 30000, stdMemFaults, stdRealFaults)
	case "C13":
		return histJobs("catalog", 8000, 400000, 800, 30000, stdMemFaults, stdRealFaults)
	case "C14":
		return histJobs("indexcat", 8000, 400000, 800, 30000, stdMemFaults, stdRealFaults)
	case "C19":
		return append(histJobs("export", 6000, 300000, 800, 30000, stdMemFaults, stdRealFaults),
			Job{Engine: "bigbulk", Backends: []string{"bbolt", "mem-sw-livecur", "mem-opt-snapcur", "badger-mem"}, Quick: 120, Thorough: 3000, Params: map[string]string{"maxN": "2500", "export": "1"}})
	case "C20":
		return histJobs("nasty", 8000, 400000, 800, 30000, stdMemFaults, stdRealFaults)
	}
	if fn, ok := extraJobs[prop]; ok {
		return fn(tier)
	}
	return nil
}

var extraJobs = map[string]func(tier string) []Job{}

const enumRule = "each evaluation is one faulted (or crashed) execution: for a seeded (history prefix, target operation) pair the target's faultable store calls (begin, get, set, delete, cursor item read, commit) are counted fault-free, then EVERY position k is executed on a freshly rebuilt database (exhaustive in k per pair; the pairs are sampled); plus seeded histories with invalid inputs and random fault positions. Non-trivial: the fault/crash fired with the operation in flight and the no-effect / atomicity oracle was evaluated; distinct = distinct hash of (backend, op list, position)"

func init() {
	propInfo["C04"] = &PropInfo{Level: "fault_enumeration", Rule: enumRule, Assumptions: append([]string{"store failures are injected at the store.Store/Tx/Cursor seam: the failing call returns an error without reaching the backend (for Commit the inner transaction is rolled back first: commit failed => nothing applied). Seek, Cursor(), Rollback and Close are not failed: the shipped adapters never fail them and the property does not list them"}, commonAssumptions...), RequiredProbes: []string{"fault-begin", "fault-get", "fault-set", "fault-delete", "fault-item", "fault-commit", "duplicate-id-at-batch-position>0", "malformed-id-at-batch-position>0", "update-produces-invalid-doc"}}
	propInfo["C05"] = &PropInfo{Level: "fault_enumeration", Rule: enumRule + "; crash engines: simulated disk = crash before/after every faultable store call, and (write operations) the executing goroutine unwinding at every faultable store call with the handle living on; real bbolt / badger on disk = a child process executes the history and is SIGKILLed at a store-call position (and, for bbolt, at a file-syscall position via strace fault injection), the parent reopens the directory and compares with the model state after m or m+1 acknowledged operations", Assumptions: append([]string{"process-kill semantics only: the OS page cache survives, lost or torn sector writes (power loss) are outside the statement and are not injected"}, commonAssumptions...), RequiredProbes: []string{"crash-with-writes-in-flight", "crash-op-absent", "crash-op-present", "clean-reopen"}}
	extraJobs["C04"] = func(tier string) []Job {
		return []Job{
			{Engine: "fault", Backends: memAll, Quick: 1500, Thorough: 60000},
			{Engine: "fault", Backends: []string{"bbolt", "badger-mem", "badger-mem", "badger-disk"}, Quick: 160, Thorough: 6000},
			{Engine: "hist", Mode: "ids", Backends: memAll, Faults: []string{"faults", "none"}, Quick: 2000, Thorough: 80000, Opt: fullOpt},
			{Engine: "hist", Mode: "audit", Backends: memAll, Faults: []string{"faults"}, Quick: 2000, Thorough: 80000, Opt: fullOpt},
			{Engine: "hist", Mode: "export", Backends: memAll, Faults: []string{"faults"}, Quick: 1000, Thorough: 40000, Opt: fullOpt},
			{Engine: "hist", Mode: "audit", Backends: realAll, Faults: []string{"faults"}, Quick: 300, Thorough: 10000, Opt: fullOpt},
		}
	}
	extraJobs["C05"] = func(tier string) []Job {
		return []Job{
			{Engine: "crash", Backends: memAll, Quick: 1000, Thorough: 60000},
			{Engine: "fault", Backends: memAll, Quick: 400, Thorough: 30000},
			{Engine: "hist", Mode: "audit", Backends: memAll, Faults: []string{"crashes", "restarts"}, Quick: 2000, Thorough: 80000, Opt: fullOpt},
			{Engine: "hist", Mode: "bulk", Backends: []string{"bbolt", "bbolt", "badger-disk"}, Faults: []string{"restarts"}, Quick: 400, Thorough: 15000, Opt: fullOpt},
			{Engine: "crashproc", Backends: []string{"bbolt", "bbolt", "badger-disk"}, Quick: 64, Thorough: 2500, Params: map[string]string{"points": "10", "strace": "1"}},
			{Engine: "crashproc", Backends: []string{"bbolt", "badger-disk"}, Quick: 8, Thorough: 300, Params: map[string]string{"points": "0", "strace": "1"}},
		}
	}
}

func init() {
	propInfo["C15"] = &PropInfo{Level: "exploration", Rule: "two kinds of evaluation: (diff) one seeded fault-free history executed on bbolt, badger on disk and badger in memory, every operation's observable result (documents and their order, counts, catalog, error class) compared across the three and with the reference model; (cursor) a seeded key set written through store.Tx and iterated through store.Cursor after forward/reverse seeks to present, absent, before-first and after-last targets, inside the writing transaction and in a later read transaction, compared with a sorted-slice model. Non-trivial: at least one cross-backend comparison or cursor-contract comparison was made; distinct = distinct hash of the op list", Assumptions: commonAssumptions, RequiredProbes: []string{"cursor-seek-present", "cursor-seek-absent", "cursor-seek-before-first", "cursor-seek-after-last", "cursor-seek-beyond-end", "diff-observations"}}
	propInfo["C17"] = &PropInfo{Level: "exploration", Rule: "each evaluation is one seeded index scenario: index.RangeIndex created over a transaction of the backend, entries added/removed through Add/Remove, then range scans (boundary values x inclusivity x direction, nil-only range, open ends), full iterations, early-stop consumers and range intersections, inside the writing transaction and in a later read transaction, compared with a filter+order model over the same (value, id) multiset. Non-trivial: at least one scan was compared; distinct = distinct hash of the op list", Assumptions: append([]string{"hook: clover.VerifErrStopIteration (build tag verif) exposes the internal stop sentinel so that the harness can ask a scan to stop"}, commonAssumptions...), RequiredProbes: []string{"idx-scan-nonempty", "idx-reverse-scan", "idx-nil-only-range", "idx-bound-equals-stored-value", "idx-stop-requested", "idx-scan-in-read-tx", "idx-intersect"}}
	extraJobs["C15"] = func(tier string) []Job {
		return []Job{
			{Engine: "diff", Quick: 400, Thorough: 20000},
			{Engine: "diffbig", Quick: 6, Thorough: 120},
			{Engine: "cursor", Backends: []string{"bbolt", "bbolt", "badger-mem", "badger-disk"}, Quick: 1200, Thorough: 60000},
			{Engine: "cursor", Backends: []string{"mem-sw-livecur", "mem-opt-snapcur"}, Quick: 400, Thorough: 20000},
		}
	}
	extraJobs["C17"] = func(tier string) []Job {
		return []Job{
			{Engine: "idx", Backends: memAll, Quick: 6000, Thorough: 300000},
			{Engine: "idx", Backends: []string{"bbolt", "bbolt", "badger-mem", "badger-disk"}, Quick: 1500, Thorough: 60000},
		}
	}
}

func init() {
	propInfo["C07"] = &PropInfo{Level: "exploration", Rule: "each evaluation is one simulated concurrent run: 2-8 client goroutines share one DB handle; every client parks before every store call and at operation boundaries, exactly one runs at a time, and a seeded scheduler (splitmix64 from the run's schedSeed, or the explicit schedule of a replay file) chooses who proceeds; blocking on the single writer lock is modelled (a client whose next call is Begin(true) is not runnable while a write transaction is open). The recorded invoke/return history, stamped with the global decision counter, is checked for linearizability against the sequential reference model with porcupine (Illegal = violation, Unknown = inconclusive and only counted); write-conflict errors must have no effect; after the run the stored state passes the consistency audit. A second binary built with -race replays run files on real bbolt/badger with a race-detector-invisible hand-off. Non-trivial: the linearizability check ran on a history; distinct = distinct hash of (backend, client op lists, schedule)", Assumptions: append([]string{"preemption happens only at store calls and operation boundaries: the handle's only shared state is behind the store interface, so these are all the points at which clients can observe each other; memory-level interleavings inside clover are left to the race detector run", "bbolt runs pre-grow the file so that commits never re-mmap (a re-mmap waits for open read transactions, which cannot be modelled from outside the engine)"}, commonAssumptions...), RequiredProbes: []string{"context-switches", "preempted-inside-write-tx", "commit-conflict-observed"}}
	extraJobs["C07"] = func(tier string) []Job {
		return []Job{
			{Engine: "conc", Backends: []string{"mem-sw-livecur", "mem-sw-livecur", "mem-opt-snapcur", "mem-opt-snapcur", "mem-opt-livecur", "mem-sw-snapcur"}, Quick: 14000, Thorough: 400000},
			{Engine: "conc", Backends: []string{"bbolt", "bbolt", "badger-mem"}, Quick: 2400, Thorough: 60000},
			{Engine: "conc", Backends: []string{"bbolt", "badger-mem"}, Quick: 80, Thorough: 4000, Params: map[string]string{"race": "1"}},
		}
	}
}
