package model

import (
	"encoding/json"
	"sort"
	"strings"

	"verif/sim/val"
)

type SortOpt struct {
	Field string `json:"field"`
	Dir   int    `json:"dir"`
}

// Query is the harness's own query description.
type Query struct {
	Coll      string    `json:"coll"`
	Crit      *Crit     `json:"crit,omitempty"`
	HasSkip   bool      `json:"hasSkip,omitempty"`
	Skip      int       `json:"skip,omitempty"`
	HasLimit  bool      `json:"hasLimit,omitempty"`
	Limit     int       `json:"limit,omitempty"`
	SortCalls bool      `json:"sortCalled,omitempty"` // Sort(...) was called (possibly with no options)
	Sort      []SortOpt `json:"sort,omitempty"`
}

type queryAlias Query

// Collection names need not be valid UTF-8; encoding/json would mangle them.
func (q Query) MarshalJSON() ([]byte, error) {
	a := queryAlias(q)
	a.Coll = val.EncStr(a.Coll)
	return json.Marshal(a)
}

func (q *Query) UnmarshalJSON(b []byte) error {
	var a queryAlias
	if err := json.Unmarshal(b, &a); err != nil {
		return err
	}
	a.Coll = val.DecStr(a.Coll)
	*q = Query(a)
	return nil
}

// EffSort returns the effective sort options (Sort() without options = by _id).
func (q *Query) EffSort() []SortOpt {
	if !q.SortCalls {
		return nil
	}
	if len(q.Sort) == 0 {
		return []SortOpt{{Field: "_id", Dir: 1}}
	}
	return q.Sort
}

// EffSkip: a negative skip is ignored.
func (q *Query) EffSkip() int {
	if q.HasSkip && q.Skip > 0 {
		return q.Skip
	}
	return 0
}

// EffLimit: negative means unlimited (-1).
func (q *Query) EffLimit() int {
	if q.HasLimit && q.Limit >= 0 {
		return q.Limit
	}
	return -1
}

type Coll struct {
	Docs    map[string]Doc
	Indexes map[string]bool
}

type DB struct {
	Colls map[string]*Coll
}

func NewDB() *DB { return &DB{Colls: map[string]*Coll{}} }

func (db *DB) Clone() *DB {
	n := NewDB()
	for name, c := range db.Colls {
		nc := &Coll{Docs: make(map[string]Doc, len(c.Docs)), Indexes: make(map[string]bool, len(c.Indexes))}
		for id, d := range c.Docs {
			nc.Docs[id] = val.CloneMap(d)
		}
		for f := range c.Indexes {
			nc.Indexes[f] = true
		}
		n.Colls[name] = nc
	}
	return n
}

func (db *DB) CollNames() []string {
	names := make([]string, 0, len(db.Colls))
	for n := range db.Colls {
		names = append(names, n)
	}
	sort.Strings(names)
	return names
}

func (c *Coll) IDs() []string {
	ids := make([]string, 0, len(c.Docs))
	for id := range c.Docs {
		ids = append(ids, id)
	}
	sort.Strings(ids)
	return ids
}

func (c *Coll) IndexFields() []string {
	fs := make([]string, 0, len(c.Indexes))
	for f := range c.Indexes {
		fs = append(fs, f)
	}
	sort.Strings(fs)
	return fs
}

// Matching returns the ids of the documents satisfying crit, sorted by id.
func (c *Coll) Matching(crit *Crit) []string {
	var ids []string
	for _, id := range c.IDs() {
		if crit == nil || crit.Eval(c.Docs[id]) {
			ids = append(ids, id)
		}
	}
	return ids
}

// Fingerprint is a canonical rendering of the whole logical state.
func (db *DB) Fingerprint() string {
	var sb strings.Builder
	for _, name := range db.CollNames() {
		c := db.Colls[name]
		sb.WriteString("C ")
		sb.WriteString(name)
		sb.WriteString(" idx=")
		sb.WriteString(strings.Join(c.IndexFields(), ","))
		sb.WriteByte('\n')
		for _, id := range c.IDs() {
			sb.WriteString("  ")
			sb.WriteString(val.String(c.Docs[id]))
			sb.WriteByte('\n')
		}
	}
	return sb.String()
}

// ---- sort semantics -----------------------------------------------------------

// KeyTuple is the tuple of sort-key values of a document, absent mapped to nil,
// plus presence flags.
type KeyTuple struct {
	Vals []interface{}
	Has  []bool
}

func TupleOf(d Doc, opts []SortOpt) KeyTuple {
	t := KeyTuple{Vals: make([]interface{}, len(opts)), Has: make([]bool, len(opts))}
	for i, o := range opts {
		t.Vals[i], t.Has[i] = Lookup(d, o.Field)
	}
	return t
}

func dirOf(o SortOpt) int {
	if o.Dir < 0 {
		return -1
	}
	return 1
}

// CmpTuples compares two tuples under opts. absentBelowNil selects the
// interpretation for absent-vs-nil: false = one class (tie), true = absent
// strictly before nil (in ascending direction).
func CmpTuples(a, b KeyTuple, opts []SortOpt, absentBelowNil bool) int {
	for i, o := range opts {
		c := val.Compare(a.Vals[i], b.Vals[i])
		if c == 0 && absentBelowNil && a.Has[i] != b.Has[i] {
			if !a.Has[i] {
				c = -1
			} else {
				c = 1
			}
		}
		if c != 0 {
			return c * dirOf(o)
		}
	}
	return 0
}

// DefinitelyAfter reports whether a must come after b under every accepted
// reading of the sort specification: scanning keys in order, a strict value
// difference decides; an absent-vs-nil pair on a key makes the pair
// unconstrained (either order is accepted).
func DefinitelyAfter(a, b KeyTuple, opts []SortOpt) bool {
	for i, o := range opts {
		c := val.Compare(a.Vals[i], b.Vals[i])
		if c != 0 {
			return c*dirOf(o) > 0
		}
		if a.Has[i] != b.Has[i] {
			return false
		}
	}
	return false
}

// TupleClassKey renders a tuple with absent and nil in one class and numbers by
// value (so 1, 1.0 and uint 1 are the same key).
func TupleClassKey(t KeyTuple) string {
	var sb strings.Builder
	for i, v := range t.Vals {
		if i > 0 {
			sb.WriteByte('|')
		}
		sb.WriteString(classKey(v))
	}
	return sb.String()
}

func classKey(v interface{}) string {
	switch x := v.(type) {
	case int64, uint64, float64:
		// canonical numeric rendering by exact value
		return "n" + numKey(v)
	case []interface{}:
		parts := make([]string, len(x))
		for i := range x {
			parts[i] = classKey(x[i])
		}
		return "[" + strings.Join(parts, ",") + "]"
	case map[string]interface{}:
		ks := val.SortedKeys(x)
		parts := make([]string, len(ks))
		for i, k := range ks {
			parts[i] = k + ":" + classKey(x[k])
		}
		return "{" + strings.Join(parts, ",") + "}"
	}
	return val.String(val.NormalizeInstant(v))
}

func numKey(v interface{}) string {
	return val.NumKey(v)
}

// SortedTuples returns the model's ordered key-tuple class sequence for the ids
// under one interpretation.
func SortedTuples(c *Coll, ids []string, opts []SortOpt, absentBelowNil bool) []string {
	ts := make([]KeyTuple, len(ids))
	for i, id := range ids {
		ts[i] = TupleOf(c.Docs[id], opts)
	}
	sort.SliceStable(ts, func(i, j int) bool { return CmpTuples(ts[i], ts[j], opts, absentBelowNil) < 0 })
	out := make([]string, len(ts))
	for i := range ts {
		out[i] = TupleClassKey(ts[i])
	}
	return out
}

// Window applies skip/limit to a sequence.
func Window(seq []string, skip, limit int) []string {
	if skip > len(seq) {
		skip = len(seq)
	}
	seq = seq[skip:]
	if limit >= 0 && limit < len(seq) {
		seq = seq[:limit]
	}
	return seq
}

// WindowSize is min(m, max(0,total-n)).
func WindowSize(total, skip, limit int) int {
	n := total - skip
	if n < 0 {
		n = 0
	}
	if limit >= 0 && limit < n {
		n = limit
	}
	return n
}
