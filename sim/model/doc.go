// Package model is the executable reference model (the oracle): documents with
// dotted paths, a criteria AST with its own evaluator, and a trivial in-memory
// database. It has no planner and never looks at indexes to answer a query.
package model

import (
	"strings"

	"verif/sim/val"
)

type Doc = map[string]interface{}

// Lookup walks a dotted path through nested objects.
func Lookup(d Doc, path string) (interface{}, bool) {
	parts := strings.Split(path, ".")
	cur := d
	for i, p := range parts {
		v, ok := cur[p]
		if !ok {
			return nil, false
		}
		if i == len(parts)-1 {
			return v, true
		}
		m, isMap := v.(map[string]interface{})
		if !isMap {
			return nil, false
		}
		cur = m
	}
	return nil, false
}

// Get returns the value at path, nil when absent.
func Get(d Doc, path string) interface{} {
	v, _ := Lookup(d, path)
	return v
}

func Has(d Doc, path string) bool {
	_, ok := Lookup(d, path)
	return ok
}

// Set assigns path, creating intermediate objects (replacing non-objects).
func Set(d Doc, path string, v interface{}) {
	parts := strings.Split(path, ".")
	cur := d
	for i, p := range parts {
		if i == len(parts)-1 {
			cur[p] = val.Clone(v)
			return
		}
		m, isMap := cur[p].(map[string]interface{})
		if !isMap {
			m = map[string]interface{}{}
			cur[p] = m
		}
		cur = m
	}
}

// ID returns the document's _id when it is a string.
func ID(d Doc) string {
	s, _ := d["_id"].(string)
	return s
}
