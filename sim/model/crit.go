package model

import (
	"regexp"
	"strings"

	"verif/sim/val"
)

// Operand is a literal or a reference to another field of the document under test.
type Operand struct {
	// RefStyle: 0 literal, 1 query.Field(name) object, 2 "$name" string.
	RefStyle int    `json:"ref,omitempty"`
	Ref      string `json:"name,omitempty"`
	Lit      val.V  `json:"lit"`
	// NumKind names the Go numeric kind the literal is handed to clover as
	// ("" = canonical). It never changes the numeric value.
	NumKind string `json:"kind,omitempty"`
}

// Crit is the harness's own criteria AST.
type Crit struct {
	Op   string    `json:"op"` // eq neq gt gte lt lte in contains like exists notexists func and or not
	F    string    `json:"f,omitempty"`
	A    *Operand  `json:"a,omitempty"`
	As   []Operand `json:"as,omitempty"`
	Pat  string    `json:"pat,omitempty"`
	Func string    `json:"fn,omitempty"`
	Kids []*Crit   `json:"kids,omitempty"`
}

func (o *Operand) resolve(d Doc) interface{} {
	if o.RefStyle != 0 {
		return Get(d, o.Ref)
	}
	return o.Lit.X
}

// Pred is a named predicate usable through MatchFunc; it only uses Get/Has so
// that it can be evaluated on model documents and on clover documents alike.
type Getter interface {
	Get(path string) interface{}
	Has(path string) bool
}

type docGetter struct{ d Doc }

func (g docGetter) Get(p string) interface{} { return Get(g.d, p) }
func (g docGetter) Has(p string) bool        { return Has(g.d, p) }

// Preds is the fixed library of MatchFunc predicates ("name:field").
var Preds = map[string]func(g Getter, field string) bool{
	"isString": func(g Getter, f string) bool { _, ok := g.Get(f).(string); return ok },
	"isNumber": func(g Getter, f string) bool { return val.IsNumber(g.Get(f)) },
	"has":      func(g Getter, f string) bool { return g.Has(f) },
	"absent":   func(g Getter, f string) bool { return !g.Has(f) },
	"isNil":    func(g Getter, f string) bool { return g.Has(f) && g.Get(f) == nil },
	"true":     func(g Getter, f string) bool { return true },
	"false":    func(g Getter, f string) bool { return false },
}

// EvalPred evaluates "name:field".
func EvalPred(spec string, g Getter) bool {
	i := strings.IndexByte(spec, ':')
	name, field := spec, ""
	if i >= 0 {
		name, field = spec[:i], spec[i+1:]
	}
	return Preds[name](g, field)
}

var reCache = map[string]*regexp.Regexp{}

func matchRe(pat, s string) bool {
	re, ok := reCache[pat]
	if !ok {
		re, _ = regexp.Compile(pat)
		reCache[pat] = re
	}
	return re != nil && re.MatchString(s)
}

// Eval evaluates the criteria on a document under the documented semantics:
// an absent field behaves as nil for ordering comparisons and In, but fails Eq
// and Exists.
func (c *Crit) Eval(d Doc) bool {
	switch c.Op {
	case "and":
		for _, k := range c.Kids {
			if !k.Eval(d) {
				return false
			}
		}
		return true
	case "or":
		for _, k := range c.Kids {
			if k.Eval(d) {
				return true
			}
		}
		return false
	case "not":
		return !c.Kids[0].Eval(d)
	case "exists":
		return Has(d, c.F)
	case "notexists":
		return !Has(d, c.F)
	case "eq":
		return Has(d, c.F) && val.Compare(Get(d, c.F), c.A.resolve(d)) == 0
	case "neq":
		return !(Has(d, c.F) && val.Compare(Get(d, c.F), c.A.resolve(d)) == 0)
	case "gt":
		return val.Compare(Get(d, c.F), c.A.resolve(d)) > 0
	case "gte":
		return val.Compare(Get(d, c.F), c.A.resolve(d)) >= 0
	case "lt":
		return val.Compare(Get(d, c.F), c.A.resolve(d)) < 0
	case "lte":
		return val.Compare(Get(d, c.F), c.A.resolve(d)) <= 0
	case "in":
		v := Get(d, c.F)
		for i := range c.As {
			if val.Compare(c.As[i].resolve(d), v) == 0 {
				return true
			}
		}
		return false
	case "contains":
		arr, ok := Get(d, c.F).([]interface{})
		if !ok {
			return false
		}
		for i := range c.As {
			want := c.As[i].resolve(d)
			found := false
			for _, e := range arr {
				if val.Compare(want, e) == 0 {
					found = true
					break
				}
			}
			if !found {
				return false
			}
		}
		return true
	case "like":
		s, ok := Get(d, c.F).(string)
		return ok && matchRe(c.Pat, s)
	case "func":
		return EvalPred(c.Func, docGetter{d})
	}
	panic("model: unknown criteria op " + c.Op)
}

// Fields lists the fields the criteria mentions (for probes/fingerprints).
func (c *Crit) Walk(fn func(*Crit)) {
	if c == nil {
		return
	}
	fn(c)
	for _, k := range c.Kids {
		k.Walk(fn)
	}
}

func (c *Crit) String() string {
	if c == nil {
		return "<all>"
	}
	op := func(o *Operand) string {
		switch o.RefStyle {
		case 1:
			return "Field(" + o.Ref + ")"
		case 2:
			return "\"$" + o.Ref + "\""
		}
		s := val.String(o.Lit.X)
		if o.NumKind != "" {
			s += ":" + o.NumKind
		}
		return s
	}
	switch c.Op {
	case "and", "or":
		parts := make([]string, len(c.Kids))
		for i, k := range c.Kids {
			parts[i] = k.String()
		}
		return "(" + strings.Join(parts, " "+c.Op+" ") + ")"
	case "not":
		return "not(" + c.Kids[0].String() + ")"
	case "exists", "notexists":
		return c.Op + "(" + c.F + ")"
	case "like":
		return c.F + " like " + c.Pat
	case "func":
		return "func(" + c.Func + ")"
	case "in", "contains":
		parts := make([]string, len(c.As))
		for i := range c.As {
			parts[i] = op(&c.As[i])
		}
		return c.F + " " + c.Op + " [" + strings.Join(parts, ",") + "]"
	}
	return c.F + " " + c.Op + " " + op(c.A)
}
