package sim

import (
	"fmt"
	"os"
	"sort"
	"strings"
	"time"

	"github.com/anishathalye/porcupine"
	clover "github.com/ostafen/clover/v2"
	"github.com/ostafen/clover/v2/document"
	"github.com/ostafen/clover/v2/query"

	"verif/sim/mem"
	"verif/sim/model"
	"verif/sim/rng"
	"verif/sim/val"
	"verif/sim/wrap"
)

// E-CONC: several client goroutines share one DB handle. Every client parks
// before every store call (and at operation start and end); exactly one runs
// at a time; a seeded scheduler decides who runs next. The recorded history
// (invoke / return stamped with the global decision counter) is checked for
// linearizability against the sequential reference model with porcupine.

func init() {
	engines["conc"] = genConc
	engineReplayers["conc"] = runConc
	engineMinimisers["conc"] = minimiseConc
}

const concColl = "cc"
const concColl2 = "c2"
const concClosedMark = "\x00closed"

type concOut struct {
	Err  string
	Docs []string
	N    int
	Has  bool
	IDs  []string // Insert: the _id every document of the batch ended up with
}

func (o concOut) String() string {
	return fmt.Sprintf("err=%s n=%d has=%v docs=%v ids=%v", o.Err, o.N, o.Has, o.Docs, o.IDs)
}

func concErrClass(err error) string {
	if err == nil {
		return "ok"
	}
	if IsConflict(err) {
		return "conflict"
	}
	if c := errClass(err); c != "error" {
		return c
	}
	return "error: " + firstLine(err.Error())
}

func canonDocs(docs []*document.Document) []string {
	out := make([]string, len(docs))
	for i, d := range docs {
		out[i] = val.String(DocFromClover(d))
	}
	sort.Strings(out)
	return out
}

// Shared update maps: an application may keep one map (say, a package-level
// "mark as seen" update) and pass it to Update from every goroutine. The
// library may read it, never write it.
const nSharedUpds = 2

func sharedUpdGo(k int) map[string]interface{} {
	if k%nSharedUpds == 0 {
		return map[string]interface{}{"u": "shared0", "g": int(1)} // a Go int: normalisation has something to do
	}
	return map[string]interface{}{"u": "shared1", "w": float32(0.5)}
}

func sharedUpdSpec(k int) map[string]val.V {
	if k%nSharedUpds == 0 {
		return map[string]val.V{"u": val.Wrap("shared0"), "g": val.Wrap(int64(1))}
	}
	return map[string]val.V{"u": val.Wrap("shared1"), "w": val.Wrap(float64(0.5))}
}

func snapUpd(m map[string]interface{}) string {
	ks := make([]string, 0, len(m))
	for k := range m {
		ks = append(ks, k)
	}
	sort.Strings(ks)
	var sb strings.Builder
	for _, k := range ks {
		fmt.Fprintf(&sb, "%s=%T(%v);", k, m[k], m[k])
	}
	return sb.String()
}

// sharedBases are query objects built once per run and used by every client
// (through the copy-on-write builders): queries must be immutable values.
func sharedBaseSpec(k int) *model.Query {
	q := &model.Query{Coll: concColl}
	switch k {
	case 1:
		q.Crit = &model.Crit{Op: "eq", F: "g", A: &model.Operand{Lit: val.Wrap(int64(1))}}
	case 2:
		q.Crit = &model.Crit{Op: "gte", F: "g", A: &model.Operand{Lit: val.Wrap(int64(1))}}
	}
	return q
}

const nSharedBases = 3

// ---- generation ------------------------------------------------------------------------------

func genConc(job *Job, prop string, seed, idx uint64) *RunOutcome {
	r := rng.Derive(seed, rng.HashString(prop), rng.HashString("conc"), idx)
	be := job.Backends[r.Intn(len(job.Backends))]
	rf := &RunFile{Prop: prop, Engine: "conc", Seed: seed, RunIdx: idx, Backend: be, Mode: "conc", IDSeed: r.U64(), Cfg: map[string]string{"schedSeed": fmt.Sprint(r.U64())}}
	g := &Gen{R: r}
	uniq := 0
	u := func(p string) interface{} { uniq++; return fmt.Sprintf("%s%03d", p, uniq) }
	// setup (single-threaded): collection, maybe an index, a few documents
	rf.Ops = append(rf.Ops, Op{K: "CreateCollection", Coll: concColl})
	if r.Chance(0.5) {
		rf.Ops = append(rf.Ops, Op{K: "CreateIndex", Coll: concColl, Field: "g"})
	}
	var ids []string
	n0 := r.Range(0, 5)
	for i := 0; i < n0; i++ {
		id := g.newID()
		ids = append(ids, id)
		rf.Ops = append(rf.Ops, Op{K: "Insert", Coll: concColl, Docs: []val.V{val.Wrap(map[string]interface{}{"_id": id, "g": int64(r.Intn(3)), "v": u("s")})}})
	}
	spare := []string{}
	for i := 0; i < 6; i++ {
		spare = append(spare, g.newID())
	}
	nClients := r.Range(2, 5)
	if r.Chance(0.1) {
		nClients = r.Range(6, 8)
	}
	qOf := func() *model.Query {
		q := &model.Query{Coll: concColl}
		if r.Chance(0.15) {
			// a pattern never used before in this process (anything cached per pattern is filled concurrently)
			uniq++
			q.Crit = &model.Crit{Op: "like", F: "v", Pat: fmt.Sprintf("^[spiu]0*%d|x%d$", r.Intn(30), uniq)}
			return q
		}
		switch r.Intn(4) {
		case 0:
		case 1:
			q.Crit = &model.Crit{Op: "eq", F: "g", A: &model.Operand{Lit: val.Wrap(int64(r.Intn(3)))}}
		case 2:
			q.Crit = &model.Crit{Op: "gte", F: "g", A: &model.Operand{Lit: val.Wrap(int64(r.Intn(3)))}}
		default:
			q.Crit = &model.Crit{Op: "neq", F: "g", A: &model.Operand{Lit: val.Wrap(int64(r.Intn(3)))}}
		}
		return q
	}
	anyID := func() string {
		all := append(append([]string{}, ids...), spare...)
		return all[r.Intn(len(all))]
	}
	// swarm: a third of the runs concentrate on predicate writers racing with
	// updates that move documents between the predicates
	weights := []int{4, 3, 7, 4, 2, 2, 1, 7, 3, 4, 1}
	if r.Chance(0.35) {
		weights = []int{1, 6, 9, 5, 1, 1, 0, 5, 2, 1, 0}
	}
	withC2 := r.Chance(0.3)
	withClose := r.Chance(0.12)
	for c := 0; c < nClients; c++ {
		nOps := r.Range(2, 7)
		if nClients > 5 {
			nOps = r.Range(2, 4)
		}
		var ops []Op
		for i := 0; i < nOps; i++ {
			switch r.Pick(weights) {
			case 0: // insert batch with a unique tag
				k := r.Range(1, 3)
				tag := u("b")
				op := Op{K: "Insert", Coll: concColl}
				for j := 0; j < k; j++ {
					id := g.newID()
					if r.Chance(0.25) {
						id = spare[r.Intn(len(spare))] // may collide with another client's insert: duplicate key
					}
					d := map[string]interface{}{"_id": id, "g": int64(r.Intn(3)), "b": tag, "v": u("i")}
					if r.Chance(0.3) {
						delete(d, "_id") // the library generates the id (concurrently with the other clients)
					}
					op.Docs = append(op.Docs, val.Wrap(d))
				}
				ops = append(ops, op)
			case 1:
				upd := map[string]val.V{"v": val.Wrap(u("p"))}
				if r.Chance(0.45) {
					upd["g"] = val.Wrap(int64(r.Intn(3)))
				}
				ops = append(ops, Op{K: "UpdateById", Coll: concColl, ID: anyID(), Upd: upd, UpdStyle: updStyles[r.Intn(len(updStyles))]})
			case 2:
				upd := map[string]val.V{"u": val.Wrap(u("u"))}
				if r.Chance(0.55) {
					upd["g"] = val.Wrap(int64(r.Intn(3))) // rewrites the indexed / filtered field: documents move between the ranges other clients scan
				}
				if r.Chance(0.3) {
					// one update map object handed to Update by several clients at once
					k := r.Intn(nSharedUpds)
					ops = append(ops, Op{K: "Update", Q: qOf(), Upd: sharedUpdSpec(k), Note: fmt.Sprintf("sharedupd:%d", k)})
					continue
				}
				ops = append(ops, Op{K: "Update", Q: qOf(), Upd: upd})
			case 3:
				ops = append(ops, Op{K: "Delete", Q: qOf()})
			case 4:
				ops = append(ops, Op{K: "DeleteById", Coll: concColl, ID: anyID()})
			case 5:
				ops = append(ops, Op{K: "CreateIndex", Coll: concColl, Field: "g"})
			case 6:
				ops = append(ops, Op{K: "DropIndex", Coll: concColl, Field: "g"})
			case 7:
				if r.Chance(0.35) {
					k := r.Intn(nSharedBases)
					q := sharedBaseSpec(k)
					q.SortCalls, q.HasSkip, q.Skip, q.HasLimit, q.Limit = true, true, r.Intn(3), true, r.Range(1, 3)
					ops = append(ops, Op{K: "FindAll", Q: q, Note: fmt.Sprintf("shared:%d", k)})
					continue
				}
				q := qOf()
				if r.Chance(0.3) {
					q.SortCalls = true
					q.Sort = []model.SortOpt{{Field: "g", Dir: []int{1, -1}[r.Intn(2)]}}
				}
				ops = append(ops, Op{K: "FindAll", Q: q})
			case 8:
				ops = append(ops, Op{K: "Count", Q: qOf()})
			case 9:
				ops = append(ops, Op{K: "FindById", Coll: concColl, ID: anyID()})
			default:
				ops = append(ops, Op{K: "HasIndex", Coll: concColl, Field: "g"})
			}
		}
		if withC2 {
			// catalog operations on a second collection, racing with each other
			for k := r.Range(1, 3); k > 0; k-- {
				var op Op
				switch r.Intn(8) {
				case 6, 7:
					// copy of a selection of the shared collection, racing with its writers
					// (on an optimistic store the copy conflicts with any of them)
					op = Op{K: "CreateCollectionByQuery", Coll: concColl2, Q: qOf()}
				case 0, 1:
					op = Op{K: "CreateCollection", Coll: concColl2}
				case 2:
					op = Op{K: "DropCollection", Coll: concColl2}
				case 3:
					op = Op{K: "HasCollection", Coll: concColl2}
				case 4:
					op = Op{K: "Insert", Coll: concColl2, Docs: []val.V{val.Wrap(map[string]interface{}{"_id": g.newID(), "g": int64(r.Intn(3)), "v": u("j")})}}
				default:
					op = Op{K: "FindAll", Q: &model.Query{Coll: concColl2}}
				}
				at := r.Intn(len(ops) + 1)
				ops = append(ops[:at], append([]Op{op}, ops[at:]...)...)
			}
		}
		if withClose && (c < 3 || r.Bool()) {
			// the closers start together once every client has finished its other operations
			ops = append(ops, Op{K: "Close"})
			if r.Bool() {
				ops = append(ops, Op{K: "FindAll", Q: &model.Query{Coll: concColl}})
			}
		}
		rf.Clients = append(rf.Clients, ops)
	}
	return runConc(rf)
}

// ---- sequential specification ---------------------------------------------------------------------

func concStep(st *model.DB, op *Op, out concOut) (bool, *model.DB) {
	if out.Err == "conflict" {
		// rejected by the store because of a write conflict: no effect; only write transactions can conflict
		switch op.K {
		case "FindAll", "Count", "FindById", "HasIndex", "HasCollection", "Close":
			return false, st
		}
		return true, st
	}
	if st.Colls[concClosedMark] != nil {
		// a Close has been acknowledged: Close is idempotent, and every other
		// operation may fail without effect. (A Close that lost the race for the
		// closed flag returns before the store is actually closed, so an
		// operation may also still succeed; it is then judged as usual.)
		if op.K == "Close" {
			return out.Err == "ok", st
		}
		if strings.HasPrefix(out.Err, "error") {
			return true, st
		}
	}
	name := op.Coll
	if op.Q != nil {
		name = op.Q.Coll
	}
	c := st.Colls[name]
	expectErr := func(want string) bool { return out.Err == want }
	mutate := func(f func(nc *model.Coll)) *model.DB {
		n := st.Clone()
		f(n.Colls[name])
		return n
	}
	switch op.K {
	case "Close":
		if !expectErr("ok") {
			return false, st
		}
		n := st.Clone()
		n.Colls[concClosedMark] = &model.Coll{Docs: map[string]model.Doc{}, Indexes: map[string]bool{}}
		return true, n
	case "CreateCollection":
		if c != nil {
			return expectErr("ErrCollectionExist"), st
		}
		if !expectErr("ok") {
			return false, st
		}
		n := st.Clone()
		n.Colls[name] = &model.Coll{Docs: map[string]model.Doc{}, Indexes: map[string]bool{}}
		return true, n
	case "DropCollection":
		if c == nil {
			return expectErr("ErrCollectionNotExist"), st
		}
		if !expectErr("ok") {
			return false, st
		}
		n := st.Clone()
		delete(n.Colls, name)
		return true, n
	case "HasCollection":
		return expectErr("ok") && out.Has == (c != nil), st
	case "CreateCollectionByQuery":
		if st.Colls[op.Coll] != nil {
			return expectErr("ErrCollectionExist"), st
		}
		if c == nil {
			return expectErr("ErrCollectionNotExist"), st
		}
		if !expectErr("ok") {
			return false, st
		}
		n := st.Clone()
		nc := &model.Coll{Docs: map[string]model.Doc{}, Indexes: map[string]bool{}}
		for _, id := range c.Matching(op.Q.Crit) {
			nc.Docs[id] = c.Docs[id]
		}
		n.Colls[op.Coll] = nc
		return true, n
	}
	if c == nil {
		return expectErr("ErrCollectionNotExist"), st
	}
	switch op.K {
	case "Insert":
		docs := op.docMaps()
		if len(out.IDs) != len(docs) {
			return false, st
		}
		seen := map[string]bool{}
		for i, d := range docs {
			id, given := d["_id"].(string)
			if !given {
				// generated: must be a canonical UUID, and it is what the document is stored under
				id = out.IDs[i]
				if !idValid(id) {
					return false, st
				}
				d["_id"] = id
			} else if out.IDs[i] != id {
				return false, st
			}
			if _, live := c.Docs[id]; live || seen[id] {
				return expectErr("ErrDuplicateKey"), st
			}
			seen[id] = true
		}
		if !expectErr("ok") {
			return false, st
		}
		return true, mutate(func(nc *model.Coll) {
			for _, d := range docs {
				nc.Docs[d["_id"].(string)] = d
			}
		})
	case "UpdateById":
		old, live := c.Docs[op.ID]
		if !live {
			return expectErr("ErrDocumentNotExist"), st
		}
		if !expectErr("ok") {
			return false, st
		}
		return true, mutate(func(nc *model.Coll) { nc.Docs[op.ID] = applyUpd(old, op.updMap()) })
	case "DeleteById":
		if !expectErr("ok") {
			return false, st
		}
		if _, live := c.Docs[op.ID]; !live {
			return true, st
		}
		return true, mutate(func(nc *model.Coll) { delete(nc.Docs, op.ID) })
	case "Update":
		if !expectErr("ok") {
			return false, st
		}
		ids := c.Matching(op.Q.Crit)
		if len(ids) == 0 {
			return true, st
		}
		return true, mutate(func(nc *model.Coll) {
			for _, id := range ids {
				nc.Docs[id] = applyUpd(nc.Docs[id], op.updMap())
			}
		})
	case "Delete":
		if !expectErr("ok") {
			return false, st
		}
		ids := c.Matching(op.Q.Crit)
		if len(ids) == 0 {
			return true, st
		}
		return true, mutate(func(nc *model.Coll) {
			for _, id := range ids {
				delete(nc.Docs, id)
			}
		})
	case "CreateIndex":
		if c.Indexes[op.Field] {
			return expectErr("ErrIndexExist"), st
		}
		if !expectErr("ok") {
			return false, st
		}
		return true, mutate(func(nc *model.Coll) { nc.Indexes[op.Field] = true })
	case "DropIndex":
		if !c.Indexes[op.Field] {
			return expectErr("ErrIndexNotExist"), st
		}
		if !expectErr("ok") {
			return false, st
		}
		return true, mutate(func(nc *model.Coll) { delete(nc.Indexes, op.Field) })
	case "HasIndex":
		return expectErr("ok") && out.Has == c.Indexes[op.Field], st
	case "FindAll":
		if !expectErr("ok") {
			return false, st
		}
		ids := c.Matching(op.Q.Crit) // sorted by _id
		if strings.HasPrefix(op.Note, "shared:") {
			ids = model.Window(ids, op.Q.EffSkip(), op.Q.EffLimit()) // Sort() by _id, then the window
		}
		want := make([]string, len(ids))
		for i, id := range ids {
			want[i] = val.String(c.Docs[id])
		}
		sort.Strings(want)
		return strings.Join(want, "\x00") == strings.Join(out.Docs, "\x00"), st
	case "Count":
		return expectErr("ok") && out.N == len(c.Matching(op.Q.Crit)), st
	case "FindById":
		if !expectErr("ok") {
			return false, st
		}
		d, live := c.Docs[op.ID]
		if !live {
			return len(out.Docs) == 0, st
		}
		return len(out.Docs) == 1 && out.Docs[0] == val.String(d), st
	}
	return false, st
}

// ---- the scheduler ------------------------------------------------------------------------------------

type concClient struct {
	id      int
	ops     []Op
	turn    handoff
	done    bool
	started bool
	pending wrap.Kind
	pendUpd bool
	atCall  bool // parked at a store call (pending is meaningful)
	results []concResult
	inWrite bool
	// waitClose: the client's next operation is Close; closedNow: it has started closing
	waitClose bool
	closing   bool
	// holdUntil: the client stays parked right after the end of its transaction until
	// that many write transactions have been committed by others (scheduling policy)
	holdUntil int
}

type concResult struct {
	op        *Op
	out       concOut
	call, ret int64
}

type concRun struct {
	rf        *RunFile
	db        *clover.DB
	ctl       *wrap.Ctl
	clients   []*concClient
	cur       *concClient
	seq       int64
	parked    handoff // signalled by the running client when it parks or finishes
	single    bool    // single-writer store: Begin(true) blocks while a write transaction is open
	decided   []int
	panicMsg  string
	shared    []*query.Query
	sharedUpd []map[string]interface{}
	// holdAfterTx: per-run policy, see concClient.holdUntil
	holdAfterTx bool
}

func (cr *concRun) stamp() int64 {
	cr.seq++
	return cr.seq
}

// yield is the decorator hook: called by the running client before every store call.
func (cr *concRun) yield(k wrap.Kind, update bool) {
	c := cr.cur
	if c == nil {
		return // setup / teardown phase: single-threaded
	}
	c.pending, c.pendUpd, c.atCall = k, update, true
	if k == wrap.KAfterTx && cr.holdAfterTx {
		// let other clients commit twice while this one still works on what it read
		c.holdUntil = cr.ctl.TotalWriteCommits + 2
	}
	cr.parked.signal()
	c.turn.wait()
	c.atCall = false
}

func (cr *concRun) clientMain(c *concClient) {
	c.turn.wait()
	for i := range c.ops {
		op := &c.ops[i]
		if op.K == "Close" && !c.waitClose {
			// barrier: closers start once nobody has anything else left to do
			c.waitClose = true
			cr.parked.signal()
			c.turn.wait()
		}
		res := concResult{op: op}
		res.call = cr.stamp()
		res.out = cr.execOp(op)
		res.ret = cr.stamp()
		c.results = append(c.results, res)
		if i < len(c.ops)-1 {
			// operation boundary: a scheduling point with no store call pending
			cr.parked.signal()
			c.turn.wait()
		}
	}
	c.done = true
	cr.parked.signal()
}

func (cr *concRun) execOp(op *Op) (out concOut) {
	callBegin()
	defer callEnd()
	defer func() {
		if r := recover(); r != nil {
			out.Err = "panic: " + firstLine(fmt.Sprint(r))
			if cr.panicMsg == "" {
				cr.panicMsg = fmt.Sprintf("%s panicked: %v", op.Brief(), r)
			}
		}
	}()
	switch op.K {
	case "Close":
		out.Err = concErrClass(cr.db.Close())
	case "CreateCollection":
		out.Err = concErrClass(cr.db.CreateCollection(op.Coll))
	case "DropCollection":
		out.Err = concErrClass(cr.db.DropCollection(op.Coll))
	case "CreateCollectionByQuery":
		out.Err = concErrClass(cr.db.CreateCollectionByQuery(op.Coll, QueryToClover(op.Q)))
	case "HasCollection":
		has, err := cr.db.HasCollection(op.Coll)
		out.Err, out.Has = concErrClass(err), has
	case "Insert":
		docs := op.docMaps()
		cd := make([]*document.Document, len(docs))
		for i, d := range docs {
			cd[i] = DocToClover(d)
		}
		out.Err = concErrClass(cr.db.Insert(op.Coll, cd...))
		for _, d := range cd {
			out.IDs = append(out.IDs, d.ObjectId())
		}
	case "UpdateById":
		var rec []updRecord
		out.Err = concErrClass(cr.db.UpdateById(op.Coll, op.ID, makeUpdater(op, &rec)))
	case "DeleteById":
		out.Err = concErrClass(cr.db.DeleteById(op.Coll, op.ID))
	case "Update":
		um := op.updMap()
		if strings.HasPrefix(op.Note, "sharedupd:") {
			var k int
			fmt.Sscanf(op.Note, "sharedupd:%d", &k)
			um = cr.sharedUpd[k%nSharedUpds]
		}
		out.Err = concErrClass(cr.db.Update(QueryToClover(op.Q), um))
	case "Delete":
		out.Err = concErrClass(cr.db.Delete(QueryToClover(op.Q)))
	case "CreateIndex":
		out.Err = concErrClass(cr.db.CreateIndex(op.Coll, op.Field))
	case "DropIndex":
		out.Err = concErrClass(cr.db.DropIndex(op.Coll, op.Field))
	case "HasIndex":
		has, err := cr.db.HasIndex(op.Coll, op.Field)
		out.Err, out.Has = concErrClass(err), has
	case "FindAll":
		cq := QueryToClover(op.Q)
		if strings.HasPrefix(op.Note, "shared:") {
			var k int
			fmt.Sscanf(op.Note, "shared:%d", &k)
			cq = cr.shared[k%nSharedBases].Sort().Skip(op.Q.Skip).Limit(op.Q.Limit)
		}
		docs, err := cr.db.FindAll(cq)
		out.Err, out.Docs = concErrClass(err), canonDocs(docs)
	case "Count":
		n, err := cr.db.Count(QueryToClover(op.Q))
		out.Err, out.N = concErrClass(err), n
	case "FindById":
		d, err := cr.db.FindById(op.Coll, op.ID)
		out.Err = concErrClass(err)
		if d != nil {
			out.Docs = []string{val.String(DocFromClover(d))}
		}
	default:
		out.Err = "error: unknown op"
	}
	return out
}

func (cr *concRun) runnable(c *concClient) bool {
	if c.done {
		return false
	}
	if c.waitClose && !c.closing {
		for _, o := range cr.clients {
			if !o.done && !o.waitClose {
				return false // somebody still has ordinary operations to run
			}
		}
		if cr.ctl.TxOpen > 0 {
			return false
		}
		c.closing = true
	}
	if cr.single && c.atCall && c.pending == wrap.KBegin && c.pendUpd && cr.ctl.WriteTxOpen > 0 {
		return false // would block on the writer lock
	}
	if c.atCall && c.pending == wrap.KClose && cr.ctl.TxOpen > 0 {
		return false // closing the store waits for every open transaction (bbolt)
	}
	return true
}

// ---- run --------------------------------------------------------------------------------------------

func runConc(rf *RunFile) *RunOutcome {
	out := &RunOutcome{RF: rf, Stats: NewStats()}
	dir, err := scratchDir()
	if err != nil {
		out.Trouble = err
		return out
	}
	defer os.RemoveAll(dir)
	be, err := MakeBackend(rf.Backend, dir)
	if err != nil {
		out.Trouble = err
		return out
	}
	defer be.Destroy()
	// setup phase through the ordinary executor (with its oracle)
	e, err := NewExec(be, dir, rf.IDSeed, ExecOpt{})
	if err != nil {
		out.Trouble = err
		return out
	}
	defer e.Finish()
	if rf.Backend == "bbolt" {
		// pre-grow the file so that the small concurrent workload never has to re-mmap
		// (a re-mmap waits for every read transaction, which cannot be modelled from outside)
		pre := []Op{{K: "CreateCollection", Coll: "pregrow"}}
		bulk := Op{K: "Insert", Coll: "pregrow"}
		for i := 0; i < 400; i++ {
			bulk.Docs = append(bulk.Docs, val.Wrap(map[string]interface{}{"pad": strings.Repeat("x", 200)}))
		}
		pre = append(pre, bulk, Op{K: "DropCollection", Coll: "pregrow"}, Op{K: "Reopen"})
		for i := range pre {
			if !e.Step(-1, &pre[i]) {
				out.V = e.V
				return out
			}
		}
	}
	for i := range rf.Ops {
		op := rf.Ops[i]
		if !e.Step(i, &op) {
			out.V = e.V
			out.Stats = e.Stats
			return out
		}
	}
	if e.M.Colls[concColl] == nil {
		return out // the setup did not create the collection (minimised away): nothing to run
	}
	initial := e.M.Clone()
	raceOff := raceLogSize()
	cr := &concRun{rf: rf, db: e.DB, ctl: e.Ctl}
	for k := 0; k < nSharedBases; k++ {
		cr.shared = append(cr.shared, QueryToClover(sharedBaseSpec(k)))
	}
	for k := 0; k < nSharedUpds; k++ {
		cr.sharedUpd = append(cr.sharedUpd, sharedUpdGo(k))
	}
	sharedSnap := make([]qSnapshot, len(cr.shared))
	for k := range cr.shared {
		sharedSnap[k] = snapQuery(cr.shared[k])
	}
	switch b := be.(type) {
	case *MemBackend:
		cr.single = !b.Mode.Optimistic
	case *BoltBackend:
		cr.single = true
	}
	e.Ctl.Yield = cr.yield
	defer func() { e.Ctl.Yield = nil }()
	for i, ops := range rf.Clients {
		c := &concClient{id: i, ops: append([]Op{}, ops...)}
		c.turn = newHandoff()
		cr.clients = append(cr.clients, c)
	}
	cr.parked = newHandoff()
	active := 0
	for _, c := range cr.clients {
		if len(c.ops) == 0 {
			c.done = true
			continue
		}
		active++
		go cr.clientMain(c)
	}
	var sseed uint64
	fmt.Sscan(rf.Cfg["schedSeed"], &sseed)
	sr := rng.New(sseed)
	// swarm over scheduling policies: from frequent switches to long bursts in
	// which whole operations nest inside another client's transaction
	baseStay := []float64{0.3, 0.6, 0.6, 0.85, 0.95}[sr.Intn(5)]
	cr.holdAfterTx = sr.Chance(0.3)
	replaying := len(rf.Schedule) > 0
	pos := 0
	last := -1
	deadlock := false
	watchdog := time.AfterFunc(120*time.Second, func() {
		fmt.Fprintln(os.Stderr, "WATCHDOG: concurrent run made no progress for 120s (harness trouble)")
		os.Exit(2)
	})
	defer watchdog.Stop()
	steps := 0
	for {
		var cand, held []int
		for _, c := range cr.clients {
			if cr.runnable(c) {
				if c.atCall && c.pending == wrap.KAfterTx && c.holdUntil > cr.ctl.TotalWriteCommits {
					held = append(held, c.id)
					continue
				}
				cand = append(cand, c.id)
			}
		}
		if len(cand) == 0 {
			cand = held // nobody else can run: release the held clients
		}
		if len(cand) == 0 {
			for _, c := range cr.clients {
				if !c.done {
					deadlock = true
				}
			}
			break
		}
		pick := -1
		if replaying && pos < len(rf.Schedule) {
			want := rf.Schedule[pos]
			for _, id := range cand {
				if id == want {
					pick = id
				}
			}
			if pick < 0 {
				out.Stats.Probes["schedule-diverged"]++
			}
		}
		if pick < 0 {
			// continue the same client more often than not, but preempt a client that
			// sits inside a write transaction with writes issued half of the time
			stay := baseStay
			if last >= 0 && cr.clients[last].atCall && cr.clients[last].pendUpd && cr.clients[last].pending == wrap.KCommit {
				stay *= 0.6 // about to commit a write transaction: a good moment to let the others in
			}
			if last >= 0 && sr.Chance(stay) {
				for _, id := range cand {
					if id == last {
						pick = id
					}
				}
			}
			if pick < 0 {
				pick = cand[sr.Intn(len(cand))]
			}
		}
		pos++
		cr.decided = append(cr.decided, pick)
		if pick != last && last >= 0 {
			out.Stats.Probes["context-switches"]++
			if cr.ctl.WriteTxOpen > 0 {
				out.Stats.Probes["preempted-inside-write-tx"]++
			}
		}
		last = pick
		c := cr.clients[pick]
		cr.cur = c
		steps++
		c.turn.signal()
		cr.parked.wait()
		cr.cur = nil
		watchdog.Reset(120 * time.Second)
	}
	rf.Schedule = cr.decided
	out.NOps = steps
	out.Stats.StoreCalls = e.Ctl.TotalCalls
	e.Ctl.Yield = nil
	feats := map[string]string{"backend": rf.Backend}
	if deadlock {
		var who []string
		for _, c := range cr.clients {
			if !c.done {
				who = append(who, fmt.Sprintf("client %d waits at %s(update=%v)", c.id, c.pending, c.pendUpd))
			}
		}
		out.V = &Violation{Props: []string{"C07", "C20"}, Rule: "C07/deadlock", Msg: "every unfinished client is blocked: " + strings.Join(who, "; "), Features: feats}
		return out
	}
	if cr.panicMsg != "" {
		out.V = &Violation{Props: []string{"C20", "C07"}, Rule: "C20/panic", Msg: cr.panicMsg, Features: feats}
		return out
	}
	if e.Ctl.TxOpen != 0 {
		out.V = &Violation{Props: []string{"C07", "C04"}, Rule: "C04/tx-leak", Msg: fmt.Sprintf("%d transactions still open after every client finished", e.Ctl.TxOpen), Features: feats}
		return out
	}
	if raceBuild() {
		out.Stats.Checks["race-detector"]++
		if races := cloverRaces(raceLogSince(raceOff)); len(races) > 0 {
			rep := races[0]
			if len(rep) > 3000 {
				rep = rep[:3000]
			}
			out.V = &Violation{Props: []string{"C07"}, Rule: "C07/data-race", Msg: fmt.Sprintf("the race detector reported %d data race(s) involving clover code, first one:\n%s", len(races), rep), Features: feats}
			return out
		}
	}
	for k := range cr.sharedUpd {
		if got, want := snapUpd(cr.sharedUpd[k]), snapUpd(sharedUpdGo(k)); got != want {
			out.V = &Violation{Props: []string{"C07"}, Rule: "C07/shared-argument-written", Msg: fmt.Sprintf("an update map handed to Update by several clients was written to by the library (a data race on the caller's memory): before %s, after %s", want, got), Features: feats}
			return out
		}
	}
	for k := range cr.shared {
		if !snapQuery(cr.shared[k]).equal(sharedSnap[k]) {
			out.V = &Violation{Props: []string{"C07", "C09"}, Rule: "C09/query-mutated", Msg: fmt.Sprintf("a query object shared by the clients was modified by the calls made on it: before %+v, after %+v", sharedSnap[k], snapQuery(cr.shared[k])), Features: feats}
			return out
		}
	}
	// final read by a pseudo-client after everything
	var history []porcupine.Operation
	nOps := 0
	conflicts := 0
	for _, c := range cr.clients {
		for i := range c.results {
			r := c.results[i]
			history = append(history, porcupine.Operation{ClientId: c.id, Input: r.op, Call: r.call, Output: r.out, Return: r.ret})
			nOps++
			if r.out.Err == "conflict" {
				conflicts++
			}
		}
	}
	closedAtEnd := false
	for _, c := range cr.clients {
		for _, r := range c.results {
			if r.op.K == "Close" {
				closedAtEnd = true
			}
		}
	}
	if closedAtEnd {
		out.Stats.Probes["concurrent-close"]++
		e.closed = true
	}
	finalOp := &Op{K: "FindAll", Q: &model.Query{Coll: concColl}}
	fdocs, ferr := e.DB.FindAll(QueryToClover(finalOp.Q))
	var f2docs []*document.Document
	has2 := false
	if !closedAtEnd {
		finalHas2 := &Op{K: "HasCollection", Coll: concColl2}
		h2, h2err := e.DB.HasCollection(concColl2)
		has2 = h2
		history = append(history, porcupine.Operation{ClientId: len(cr.clients), Input: finalHas2, Call: cr.stamp(), Output: concOut{Err: concErrClass(h2err), Has: h2}, Return: cr.stamp()})
		if h2 {
			final2 := &Op{K: "FindAll", Q: &model.Query{Coll: concColl2}}
			d2, d2err := e.DB.FindAll(QueryToClover(final2.Q))
			f2docs = d2
			history = append(history, porcupine.Operation{ClientId: len(cr.clients), Input: final2, Call: cr.stamp(), Output: concOut{Err: concErrClass(d2err), Docs: canonDocs(d2)}, Return: cr.stamp()})
		}
	}
	history = append(history, porcupine.Operation{ClientId: len(cr.clients), Input: finalOp, Call: cr.stamp(), Output: concOut{Err: concErrClass(ferr), Docs: canonDocs(fdocs)}, Return: cr.stamp()})
	finalIdx := &Op{K: "HasIndex", Coll: concColl, Field: "g"}
	has, herr := e.DB.HasIndex(concColl, "g")
	history = append(history, porcupine.Operation{ClientId: len(cr.clients), Input: finalIdx, Call: cr.stamp(), Output: concOut{Err: concErrClass(herr), Has: has}, Return: cr.stamp()})
	if conflicts > 0 {
		out.Stats.Probes["commit-conflict-observed"] += conflicts
	}
	pm := porcupine.Model{
		Init: func() interface{} { return initial },
		Step: func(state, input, output interface{}) (bool, interface{}) {
			ok, ns := concStep(state.(*model.DB), input.(*Op), output.(concOut))
			return ok, ns
		},
		Equal: func(a, b interface{}) bool {
			return a.(*model.DB) == b.(*model.DB) || a.(*model.DB).Fingerprint() == b.(*model.DB).Fingerprint()
		},
		DescribeOperation: func(in, o interface{}) string { return in.(*Op).Brief() + " -> " + o.(concOut).String() },
	}
	out.Stats.Checks["linearizability"]++
	out.Stats.Checks["conc"]++
	res := porcupine.CheckOperationsTimeout(pm, history, 20*time.Second)
	switch res {
	case porcupine.Unknown:
		out.Stats.Probes["linearizability-inconclusive"]++
	case porcupine.Illegal:
		var sb strings.Builder
		sort.Slice(history, func(i, j int) bool { return history[i].Call < history[j].Call })
		for _, h := range history {
			fmt.Fprintf(&sb, "\n    c%d [%d,%d] %s -> %s", h.ClientId, h.Call, h.Return, h.Input.(*Op).Brief(), h.Output.(concOut).String())
		}
		kinds := map[string]bool{}
		for _, c := range cr.clients {
			for _, r := range c.results {
				kinds[r.op.K] = true
			}
		}
		ks := make([]string, 0, len(kinds))
		for k := range kinds {
			ks = append(ks, k)
		}
		sort.Strings(ks)
		feats["ops"] = strings.Join(ks, ",")
		out.V = &Violation{Props: []string{"C07"}, Rule: "C07/not-linearizable", Msg: fmt.Sprintf("no sequential order consistent with real time explains this history of %d operations by %d clients (initial state: %d documents, indexes %v):%s", nOps, len(cr.clients), len(initial.Colls[concColl].Docs), initial.Colls[concColl].IndexFields(), sb.String()), Features: feats}
		return out
	}
	if closedAtEnd {
		out.Stats.Merge(e.Stats)
		return out
	}
	// quiescent consistency of the stored state
	fin := model.NewDB()
	if has2 {
		fin.Colls[concColl2] = &model.Coll{Docs: map[string]model.Doc{}, Indexes: map[string]bool{}}
		for _, d := range f2docs {
			fin.Colls[concColl2].Docs[d.ObjectId()] = DocFromClover(d)
		}
	}
	fin.Colls[concColl] = &model.Coll{Docs: map[string]model.Doc{}, Indexes: map[string]bool{}}
	for _, d := range fdocs {
		fin.Colls[concColl].Docs[d.ObjectId()] = DocFromClover(d)
	}
	if has {
		fin.Colls[concColl].Indexes["g"] = true
	}
	for name, c := range initial.Colls {
		if name != concColl && name != concColl2 {
			fin.Colls[name] = c
		}
	}
	e.M = fin
	e.cur = nil
	e.Audit()
	if e.V != nil {
		e.V.Props = append([]string{"C07"}, e.V.Props...)
		e.V.Rule = "C07/audit(" + e.V.Rule + ")"
		out.V = e.V
	}
	out.Stats.Merge(e.Stats)
	_ = mem.ErrConflict
	return out
}

// ---- minimisation: fewer clients, fewer ops, then fewer context switches ------------------------------------

func minimiseConc(rf *RunFile, prop string, budget time.Duration) *RunFile {
	deadline := time.Now().Add(budget)
	rule := rf.Violation.Rule
	best := rf.Clone()
	test := func(c *RunFile) bool {
		if time.Now().After(deadline) {
			return false
		}
		cc := c.Clone()
		cc.Violation = nil
		o := runConc(cc)
		if o.Trouble != nil || o.V == nil || o.V.Rule != rule || !o.V.HasProp(prop) {
			return false
		}
		c.Schedule = cc.Schedule
		c.Violation = o.V
		return true
	}
	// drop whole clients (schedule is re-derived from the seed when it no longer fits)
	for i := 0; i < len(best.Clients); {
		c := best.Clone()
		c.Clients = append(append([][]Op{}, best.Clients[:i]...), best.Clients[i+1:]...)
		c.Schedule = remapSchedule(best.Schedule, i)
		if len(c.Clients) >= 1 && test(c) {
			best = c
		} else {
			i++
		}
	}
	// drop single ops
	for ci := range best.Clients {
		for oi := 0; oi < len(best.Clients[ci]); {
			c := best.Clone()
			c.Clients[ci] = append(append([]Op{}, best.Clients[ci][:oi]...), best.Clients[ci][oi+1:]...)
			if test(c) {
				best = c
			} else {
				oi++
			}
		}
	}
	// drop setup ops (keep the collection)
	for i := 1; i < len(best.Ops); {
		c := best.Clone()
		c.Ops = append(append([]Op{}, best.Ops[:i]...), best.Ops[i+1:]...)
		if test(c) {
			best = c
		} else {
			i++
		}
	}
	// fewer context switches: try to extend each run of the same client
	for i := 1; i < len(best.Schedule) && time.Now().Before(deadline); i++ {
		if best.Schedule[i] != best.Schedule[i-1] {
			c := best.Clone()
			c.Schedule[i] = c.Schedule[i-1]
			if test(c) {
				best = c
			}
		}
	}
	return best
}

func remapSchedule(s []int, removed int) []int {
	var out []int
	for _, x := range s {
		switch {
		case x == removed:
		case x > removed:
			out = append(out, x-1)
		default:
			out = append(out, x)
		}
	}
	return out
}
