package main

import (
	"flag"
	"fmt"
	"os"
	"sort"
	"strings"

	"verif/sim"
)

func main() {
	if len(os.Args) < 2 {
		fmt.Fprintln(os.Stderr, "usage: verif <check|replay|worker|explore|selftest> ...")
		os.Exit(2)
	}
	switch os.Args[1] {
	case "explore":
		explore(os.Args[2:])
	case "check":
		os.Exit(sim.CheckMain(os.Args[2:]))
	case "replay":
		os.Exit(sim.ReplayMain(os.Args[2:]))
	case "worker":
		os.Exit(sim.WorkerMain(os.Args[2:]))
	case "child":
		os.Exit(sim.ChildMain(os.Args[2:]))
	case "crashworker":
		os.Exit(sim.CrashWorkerMain(os.Args[2:]))
	case "selftest":
		os.Exit(sim.SelfTestMain(os.Args[2:]))
	default:
		fmt.Fprintln(os.Stderr, "unknown subcommand", os.Args[1])
		os.Exit(2)
	}
}

// explore is a development aid: run generated histories and print a histogram
// of the rules that fire.
func explore(args []string) {
	fs := flag.NewFlagSet("explore", flag.ExitOnError)
	prop := fs.String("prop", "C01", "")
	mode := fs.String("mode", "query", "")
	n := fs.Int("n", 200, "")
	seed := fs.Uint64("seed", 1, "")
	backends := fs.String("backends", "mem-sw-livecur", "")
	faults := fs.String("faults", "none", "")
	show := fs.Int("show", 1, "examples per rule")
	fs.Parse(args)
	plan := &sim.HistPlan{Prop: *prop, Mode: *mode, Backends: strings.Split(*backends, ","), Faults: strings.Split(*faults, ","),
		OptFn: func(be string) sim.ExecOpt { return sim.ExecOpt{AuditEvery: 1, FullCompare: true} }}
	hist := map[string]int{}
	examples := map[string][]string{}
	totalOps := 0
	agg := sim.NewStats()
	for i := 0; i < *n; i++ {
		out := sim.GenerateAndRun(plan, *seed, uint64(i))
		if out.Trouble != nil {
			fmt.Println("TROUBLE:", out.Trouble)
			continue
		}
		totalOps += out.NOps
		agg.Merge(out.Stats)
		if out.V != nil {
			key := out.V.Rule + " " + strings.Join(out.V.Props, ",")
			hist[key]++
			if len(examples[key]) < *show {
				examples[key] = append(examples[key], fmt.Sprintf("run %d (%s): %s", i, out.RF.Backend, out.V.String()))
			}
		}
	}
	keys := make([]string, 0, len(hist))
	for k := range hist {
		keys = append(keys, k)
	}
	sort.Strings(keys)
	fmt.Printf("runs=%d ops=%d storeCalls=%d states=%d\n", *n, totalOps, agg.StoreCalls, len(agg.States))
	for _, k := range keys {
		fmt.Printf("%5d  %s\n", hist[k], k)
		for _, ex := range examples[k] {
			fmt.Println("        ", ex)
		}
	}
	pk := make([]string, 0)
	for k := range agg.Probes {
		pk = append(pk, k)
	}
	sort.Strings(pk)
	fmt.Println("probes:")
	for _, k := range pk {
		fmt.Printf("  %-45s %d\n", k, agg.Probes[k])
	}
}
